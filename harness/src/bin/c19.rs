//! C19 — wallet accounting matches the ledger.
//!
//! (a) unit level: drives a real `Wallet` with operation sequences (wind / unwind of
//!     blocks, add_slip / delete_slip, remove_old_slips, delete_block,
//!     Transaction::create_with_multiple_payments, create_staking_transaction,
//!     add_to_pending) and records after every step the observable state; the same
//!     sequence (with the hash-set iteration order that was actually used) goes to
//!     the Gallina model `Wallet.trace` in generated case files.
//! (b) node level: real chains built with world.rs (window 3/5/8, golden tickets,
//!     payments between keys 1..3, automatic rebroadcast, pruning); after every
//!     accepted block the node's wallet is compared with `blockchain.utxoset`
//!     (the C19 oracle) and with the model, and transactions are built with the
//!     node's wallet and validated against the ledger.
//! Direct oracles on the implementation: balance = sum of unspent, unspent = ledger
//! view minus committed, built transactions: no duplicate input, out <= in,
//! inputs unspent, value conservation, validate against the ledger.
use std::collections::{BTreeMap, BTreeSet};
use std::panic::{catch_unwind, AssertUnwindSafe};
use std::sync::Arc;

use ahash::{AHashMap, AHashSet, RandomState};
use saito_core::core::consensus::block::Block;
use saito_core::core::consensus::blockchain::Blockchain;
use saito_core::core::consensus::slip::{Slip, SlipType};
use saito_core::core::consensus::transaction::{Transaction, TransactionType};
use saito_core::core::consensus::wallet::Wallet;
use saito_core::core::defs::{SaitoPrivateKey, SaitoPublicKey, SaitoUTXOSetKey, UtxoSet};
use saito_core::core::io::storage::Storage;
use saito_core::core::util::balance_snapshot::BalanceSnapshot;
use tokio::sync::RwLock;
use verif_harness::common::{jstr, Args, Summary};
use verif_harness::gal;
use verif_harness::rng::Rng;
use verif_harness::world::{self, keypair, make_block, make_genesis, Node, Params};

const ID_EDGE: &str = "window-edge-shortfall";
const ID_CAP: &str = "input-cap-255";

type Rows = Vec<Vec<u64>>;
type K6 = [u64; 6];

// ------------------------------------------------------------------ interning

struct Tab {
    pks: BTreeMap<[u8; 33], u64>,
    hashes: BTreeMap<[u8; 32], u64>,
}
impl Tab {
    fn new() -> Tab {
        let mut pks = BTreeMap::new();
        pks.insert([0u8; 33], 0);
        for n in 1..=3u8 {
            pks.insert(keypair(n).0, n as u64);
        }
        Tab { pks, hashes: BTreeMap::new() }
    }
    fn pk(&mut self, p: &[u8]) -> u64 {
        let mut a = [0u8; 33];
        a.copy_from_slice(p);
        let n = 10 + self.pks.len() as u64;
        *self.pks.entry(a).or_insert(n)
    }
    fn h(&mut self, h: &[u8; 32]) -> u64 {
        let n = 1 + self.hashes.len() as u64;
        *self.hashes.entry(*h).or_insert(n)
    }
    fn k6(&mut self, k: &SaitoUTXOSetKey) -> K6 {
        [
            self.pk(&k[0..33]),
            u64::from_be_bytes(k[33..41].try_into().unwrap()),
            u64::from_be_bytes(k[41..49].try_into().unwrap()),
            k[49] as u64,
            u64::from_be_bytes(k[50..58].try_into().unwrap()),
            k[58] as u64,
        ]
    }
    fn g_key(&mut self, k: &SaitoUTXOSetKey) -> String {
        let a = self.k6(k);
        format!("(K {} {} {} {} {} {})", a[0], a[1], a[2], a[3], a[4], a[5])
    }
    fn g_slip(&mut self, s: &Slip) -> String {
        format!(
            "(S {} {} {} {} {} {} {})",
            self.pk(&s.public_key),
            s.amount,
            s.slip_index,
            s.block_id,
            s.tx_ordinal,
            s.slip_type as u8,
            self.g_key(&s.utxoset_key)
        )
    }
    fn g_tx(&mut self, t: &Transaction) -> String {
        let from: Vec<String> = t.from.iter().map(|s| self.g_slip(s)).collect();
        let to: Vec<String> = t.to.iter().map(|s| self.g_slip(s)).collect();
        let spv = if t.transaction_type == TransactionType::SPV {
            format!("(Some {})", t.txs_replacements)
        } else {
            "None".to_string()
        };
        let h = match &t.hash_for_signature {
            Some(h) => format!("(Some {})", self.h(h)),
            None => "None".to_string(),
        };
        format!("(T {} {} {} {})", gal::list(&from), gal::list(&to), spv, h)
    }
    fn g_block(&mut self, b: &Block) -> String {
        let txs: Vec<String> = b.transactions.iter().map(|t| self.g_tx(t)).collect();
        format!("(B {} {})", b.id, gal::list(&txs))
    }
    fn g_keys(&mut self, ks: &[SaitoUTXOSetKey]) -> String {
        let v: Vec<String> = ks.iter().map(|k| self.g_key(k)).collect();
        gal::list(&v)
    }
}

// ------------------------------------------------------------------ observation

fn observe(w: &Wallet, tab: &mut Tab) -> Rows {
    let mut rows: Rows = vec![];
    rows.push(vec![
        0,
        w.get_available_balance(),
        w.slips.len() as u64,
        w.unspent_slips.len() as u64,
        w.staking_slips.len() as u64,
    ]);
    for k in w.unspent_slips.iter() {
        let mut r = vec![1];
        r.extend(tab.k6(k));
        rows.push(r);
    }
    for (k, s) in w.slips.iter() {
        let mut r = vec![2];
        r.extend(tab.k6(k));
        r.extend([
            s.amount,
            s.block_id,
            s.tx_ordinal,
            s.slip_index as u64,
            s.slip_type as u64,
            s.spent as u64,
            s.lc as u64,
        ]);
        rows.push(r);
    }
    for k in w.staking_slips.iter() {
        let mut r = vec![3];
        r.extend(tab.k6(k));
        rows.push(r);
    }
    for h in w.pending_txs.keys() {
        rows.push(vec![6, tab.h(h)]);
    }
    rows
}

fn tx_rows(t: &Transaction, tab: &mut Tab) -> Rows {
    let mut rows: Rows = vec![vec![7, 0]];
    for (i, s) in t.from.iter().enumerate() {
        rows.push(vec![
            4,
            i as u64,
            tab.pk(&s.public_key),
            s.amount,
            s.slip_index as u64,
            s.block_id,
            s.tx_ordinal,
            s.slip_type as u64,
        ]);
    }
    for (i, s) in t.to.iter().enumerate() {
        rows.push(vec![
            5,
            i as u64,
            tab.pk(&s.public_key),
            s.amount,
            s.slip_index as u64,
            s.block_id,
            s.tx_ordinal,
            s.slip_type as u64,
        ]);
    }
    rows
}

fn det_wallet(sk: SaitoPrivateKey, pk: SaitoPublicKey) -> Wallet {
    let mut w = Wallet::new(sk, pk);
    fix_hashers(&mut w);
    w
}
/// fixed hash seeds: the iteration order of the hash sets (which decides which slips
/// generate_slips picks) is then a function of the operation history only
fn fix_hashers(w: &mut Wallet) {
    w.unspent_slips = AHashSet::with_hasher(RandomState::with_seeds(1, 2, 3, 4));
    w.staking_slips = AHashSet::with_hasher(RandomState::with_seeds(5, 6, 7, 8));
    w.slips = AHashMap::with_hasher(RandomState::with_seeds(9, 10, 11, 12));
    w.pending_txs = AHashMap::with_hasher(RandomState::with_seeds(13, 14, 15, 16));
}

fn panic_msg(e: Box<dyn std::any::Any + Send>) -> String {
    if let Some(s) = e.downcast_ref::<String>() {
        s.clone()
    } else if let Some(s) = e.downcast_ref::<&str>() {
        s.to_string()
    } else {
        "?".to_string()
    }
}

// ------------------------------------------------------------------ one recorded run

/// everything needed to print one case
struct Rec {
    kind: String,
    gp: u64,
    groups: Vec<(Vec<String>, Rows)>,
    failures: Vec<String>,
    known: Vec<(&'static str, String)>,
    creates_ok: u64,
    creates_real_input: u64,
    winds_changed: u64,
    unwinds: u64,
    snapshots: u64,
    bound_calls: u64,
    bound_send_invalid: u64,
    panics: Vec<u64>,
    notes: Vec<String>,
}
impl Rec {
    fn new(kind: &str, gp: u64) -> Rec {
        Rec {
            kind: kind.to_string(),
            gp,
            groups: vec![],
            failures: vec![],
            known: vec![],
            creates_ok: 0,
            creates_real_input: 0,
            winds_changed: 0,
            unwinds: 0,
            snapshots: 0,
            bound_calls: 0,
            bound_send_invalid: 0,
            panics: vec![],
            notes: vec![],
        }
    }
    fn push(&mut self, ops: Vec<String>, mut rows: Rows) {
        rows.sort();
        self.groups.push((ops, rows));
    }
}

fn dbg_mode() -> bool {
    let r = catch_unwind(|| {
        let x: u64 = std::hint::black_box(u64::MAX);
        std::hint::black_box(x + std::hint::black_box(1))
    });
    r.is_err()
}

/// balance = sum of the amounts of the unspent slips (O1), unspent within slips (O2)
fn check_balance(w: &Wallet) -> Result<(), String> {
    let mut sum: u128 = 0;
    for k in w.unspent_slips.iter() {
        match w.slips.get(k) {
            Some(s) => sum += s.amount as u128,
            None => return Err("an unspent key is missing from the slips map".to_string()),
        }
    }
    let bal = w.get_available_balance() as u128;
    if sum == bal {
        Ok(())
    } else if sum >= (1u128 << 64) && sum % (1u128 << 64) == bal {
        // more than u64::MAX held: only reachable with made-up amounts, release wraps
        Ok(())
    } else {
        Err(format!("available_balance {} differs from the sum {} of the unspent slips", bal, sum))
    }
}

/// the block id / transaction index the wallet recorded for the slip are those of its key
fn key_fields_match(w: &Wallet, k: &SaitoUTXOSetKey) -> bool {
    match w.slips.get(k) {
        None => true,
        Some(s) => {
            s.block_id == u64::from_be_bytes(k[33..41].try_into().unwrap())
                && s.tx_ordinal == u64::from_be_bytes(k[41..49].try_into().unwrap())
        }
    }
}

struct CreateCall {
    keys: Vec<SaitoPublicKey>,
    payments: Vec<u64>,
    fee: u64,
    latest: u64,
    gp: u64,
    /// a single payment goes through the Transaction::create wrapper
    single: bool,
}

/// runs Transaction::create_with_multiple_payments on the real wallet, records the
/// model operation + observation, evaluates the built-transaction oracles.
/// `ledger`: utxo set to validate against (None = no ledger in this case kind).
/// Returns the transaction if it was built and passed every check.
fn do_create(
    rec: &mut Rec,
    tab: &mut Tab,
    w: &mut Wallet,
    sk: &SaitoPrivateKey,
    call: &CreateCall,
    ledger: Option<(&UtxoSet, &Blockchain)>,
    committed: &mut BTreeSet<SaitoUTXOSetKey>,
    dbg: bool,
) -> Result<Option<Transaction>, ()> {
    let _ = dbg;
    let order: Vec<SaitoUTXOSetKey> = w.unspent_slips.iter().cloned().collect();
    let pre = w.clone();
    let keys_n: Vec<u64> = call.keys.iter().map(|k| tab.pk(k)).collect();
    let op = format!(
        "OCreate {} {} {} {} {} {}",
        tab.g_keys(&order),
        gal::nlist(&keys_n),
        gal::nlist(&call.payments),
        call.fee,
        call.latest,
        call.gp
    );
    let res = catch_unwind(AssertUnwindSafe(|| {
        if call.single && call.keys.len() == 1 && call.payments.len() == 1 {
            Transaction::create(w, call.keys[0], call.payments[0], call.fee, false, None, call.latest, call.gp)
        } else {
            Transaction::create_with_multiple_payments(
                w,
                call.keys.clone(),
                call.payments.clone(),
                call.fee,
                None,
                call.latest,
                call.gp,
            )
        }
    }));
    let pay128: u128 = call.payments.iter().map(|p| *p as u128).sum();
    let fee_eff = if call.fee > pre.get_available_balance() { 0 } else { call.fee };
    let req128 = pay128 + fee_eff as u128;
    match res {
        Err(e) => {
            let msg = panic_msg(e);
            let site = if msg.contains("slip should be here") {
                5
            } else if msg.contains("subtract with overflow") {
                if call.gp == 0 {
                    6
                } else {
                    3
                }
            } else if msg.contains("add with overflow") {
                let mut acc: u64 = 0;
                let mut sum_ovf = false;
                for p in &call.payments {
                    match acc.checked_add(*p) {
                        Some(v) => acc = v,
                        None => sum_ovf = true,
                    }
                }
                if sum_ovf {
                    8
                } else if acc.checked_add(fee_eff).is_none() {
                    9
                } else {
                    7
                }
            } else {
                0
            };
            if site == 3 {
                rec.failures.push(format!("create: `available_balance -=` underflowed: {}", msg));
            }
            if site == 0 || site == 5 || site == 7 {
                rec.failures.push(format!("create panicked: {}", msg));
            }
            rec.panics.push(site);
            rec.push(vec![op], vec![vec![9, site]]);
            Err(())
        }
        Ok(Err(e)) => {
            let code = match e.kind() {
                std::io::ErrorKind::InvalidInput => 1,
                _ => 2,
            };
            let mut rows = observe(w, tab);
            rows.push(vec![7, code]);
            rec.push(vec![op], rows);
            // a refusal must leave the wallet untouched
            if *w != pre {
                rec.failures.push("create returned Err but changed the wallet".to_string());
            }
            if let Err(m) = check_balance(w) {
                rec.failures.push(format!("after a refused create: {}", m));
            }
            // with enough eligible funds and no overflow the request must be served
            Ok(None)
        }
        Ok(Ok(mut tx)) => {
            let mut rows = observe(w, tab);
            rows.extend(tx_rows(&tx, tab));
            rec.push(vec![op], rows);
            rec.creates_ok += 1;
            // ---- known-class membership, computed from the pre-state ----
            let wrap = req128 >= (1u128 << 64);
            let thr = call.latest.saturating_sub(call.gp.wrapping_sub(1));
            let eligible: u128 = pre
                .unspent_slips
                .iter()
                .filter_map(|k| pre.slips.get(k))
                .filter(|s| s.block_id > thr)
                .map(|s| s.amount as u128)
                .sum();
            let edge = !wrap && eligible < req128;
            let selected: Vec<SaitoUTXOSetKey> = pre
                .unspent_slips
                .iter()
                .filter(|k| !w.unspent_slips.contains(*k))
                .cloned()
                .collect();
            let cap = selected.len() > 255;
            for k in &selected {
                committed.insert(*k);
            }
            if tx.from.iter().any(|s| s.amount > 0) {
                rec.creates_real_input += 1;
            }
            // ---- oracles; every failed check is attributed separately ----
            // a slip of another key was put into this wallet by hand (add_slip / snapshot):
            // the wallet signs inputs with its own key, nothing about such a call is claimed
            let misuse = selected.iter().any(|k| k[0..33] != pre.public_key);
            #[derive(PartialEq, Clone, Copy)]
            enum Chk {
                Dup,
                Exceed,
                NotUnspent,
                Conserve,
                Commit,
                Validate,
            }
            let mut bad: Vec<(Chk, String)> = vec![];
            let in_keys: Vec<SaitoUTXOSetKey> = tx.from.iter().map(|s| s.get_utxoset_key()).collect();
            let uniq: BTreeSet<&SaitoUTXOSetKey> = in_keys.iter().collect();
            if uniq.len() != in_keys.len() {
                bad.push((Chk::Dup, "the transaction references the same output twice".to_string()));
            }
            let sum_in: u128 = tx.from.iter().map(|s| s.amount as u128).sum();
            let sum_out: u128 = tx.to.iter().map(|s| s.amount as u128).sum();
            if sum_out > sum_in {
                bad.push((Chk::Exceed, format!("outputs {} exceed inputs {}", sum_out, sum_in)));
            }
            for (s, k) in tx.from.iter().zip(in_keys.iter()) {
                if s.amount > 0 && !pre.unspent_slips.contains(k) {
                    bad.push((
                        Chk::NotUnspent,
                        format!(
                            "input {}:{}:{} amount {} is not an output the wallet lists as unspent",
                            s.block_id, s.tx_ordinal, s.slip_index, s.amount
                        ),
                    ));
                    break;
                }
            }
            if call.payments.len() <= 254 && sum_in != sum_out + fee_eff as u128 {
                bad.push((
                    Chk::Conserve,
                    format!("value not conserved: inputs {} != outputs {} + fee {}", sum_in, sum_out, fee_eff),
                ));
            }
            let spent_sum: u128 = selected.iter().filter_map(|k| pre.slips.get(k)).map(|s| s.amount as u128).sum();
            if spent_sum != sum_in {
                bad.push((
                    Chk::Commit,
                    format!("the wallet committed {} but the transaction consumes {}", spent_sum, sum_in),
                ));
            }
            let mut validates = true;
            if let Some((utxo, chain)) = ledger {
                tx.sign(sk);
                tx.generate(&pre.public_key, 0, 0);
                validates = tx.validate(utxo, chain, true);
                if !validates {
                    bad.push((
                        Chk::Validate,
                        "the transaction does not validate against the ledger it was built on".to_string(),
                    ));
                }
            }
            // more than u64::MAX held in total: made-up amounts, every sum is meaningless
            let held: u128 = pre.slips.values().map(|s| s.amount as u128).sum();
            if held >= (1u128 << 64) || misuse {
                bad.clear();
            }
            if !bad.is_empty() {
                // what each listed finding explains
                let classes: [(bool, &'static str, &[Chk]); 2] = [
                    (edge, ID_EDGE, &[Chk::Exceed, Chk::Conserve, Chk::Validate]),
                    (cap, ID_CAP, &[Chk::Exceed, Chk::Conserve, Chk::Commit, Chk::Validate]),
                ];
                for (chk, what) in &bad {
                    match classes.iter().find(|(holds, _, explains)| *holds && explains.contains(chk)) {
                        Some((_, id, _)) => rec.known.push((*id, what.clone())),
                        None => rec.failures.push(format!(
                            "create(payments {:?}, fee {}): {}",
                            call.payments, call.fee, what
                        )),
                    }
                }
                return Ok(None);
            }
            if let Err(m) = check_balance(w) {
                rec.failures.push(format!("after create: {}", m));
            }
            if validates && ledger.is_some() {
                Ok(Some(tx))
            } else {
                Ok(None)
            }
        }
    }
}

// ------------------------------------------------------------------ synthetic blocks

fn mk_slip(pk: &SaitoPublicKey, amount: u64, ty: SlipType) -> Slip {
    let mut s = Slip::default();
    s.public_key = *pk;
    s.amount = amount;
    s.slip_type = ty;
    s
}

fn mk_tx(ty: TransactionType, from: Vec<Slip>, to: Vec<Slip>) -> Transaction {
    let mut t = Transaction::default();
    t.transaction_type = ty;
    for mut s in from {
        s.generate_utxoset_key();
        t.from.push(s);
    }
    for s in to {
        t.to.push(s);
    }
    t
}

/// what Block::generate does to the transactions (indices, keys, hashes)
fn mk_block(id: u64, mut txs: Vec<Transaction>, creator: &SaitoPublicKey, with_hash: bool) -> Block {
    let mut b = Block::new();
    b.id = id;
    let mut idx: u64 = 0;
    for t in txs.iter_mut() {
        // what Transaction::generate does, minus the u64 totals (which panic on made-up amounts)
        let _ = creator;
        for s in t.from.iter_mut() {
            s.generate_utxoset_key();
        }
        for (i, s) in t.to.iter_mut().enumerate() {
            s.block_id = id;
            s.tx_ordinal = idx;
            s.slip_index = i as u8;
            s.generate_utxoset_key();
        }
        if with_hash {
            t.generate_hash_for_signature();
        }
        if t.transaction_type == TransactionType::SPV {
            idx += t.txs_replacements as u64;
        } else {
            idx += 1;
        }
    }
    b.transactions = txs;
    b
}

fn sorted_keys<F: Fn(&SaitoUTXOSetKey) -> bool>(utxo: &UtxoSet, f: F) -> Vec<SaitoUTXOSetKey> {
    let mut v: Vec<SaitoUTXOSetKey> = utxo.iter().filter(|(k, v)| **v && f(k)).map(|(k, _)| *k).collect();
    v.sort();
    v
}
fn key_bid(k: &SaitoUTXOSetKey) -> u64 {
    u64::from_be_bytes(k[33..41].try_into().unwrap())
}
fn key_amt(k: &SaitoUTXOSetKey) -> u64 {
    u64::from_be_bytes(k[50..58].try_into().unwrap())
}
fn spendable_ty(k: &SaitoUTXOSetKey) -> bool {
    k[58] != SlipType::BlockStake as u8 && k[58] != SlipType::Bound as u8
}

/// the C19 ledger oracle: unspent = (ledger: spendable, my key, in window) minus committed
fn check_ledger(
    w: &Wallet,
    utxo: &UtxoSet,
    window_top: u64,
    gp: u64,
    committed: &BTreeSet<SaitoUTXOSetKey>,
    reorganised: bool,
) -> Result<(), (bool, String)> {
    let low = window_top.saturating_sub(gp);
    let expected: BTreeSet<SaitoUTXOSetKey> = utxo
        .iter()
        .filter(|(k, v)| {
            **v && k[0..33] == w.public_key && spendable_ty(k) && key_bid(k) >= low && !committed.contains(*k)
        })
        .map(|(k, _)| *k)
        .collect();
    let have: BTreeSet<SaitoUTXOSetKey> = w.unspent_slips.iter().cloned().collect();
    let missing: Vec<&SaitoUTXOSetKey> = expected.difference(&have).collect();
    let extra: Vec<&SaitoUTXOSetKey> = have.difference(&expected).collect();
    if missing.is_empty() && extra.is_empty() {
        return Ok(());
    }
    let show = |k: &SaitoUTXOSetKey| format!("{}:{}:{} amount {}", key_bid(k), u64::from_be_bytes(k[41..49].try_into().unwrap()), k[49], key_amt(k));
    let msg = format!(
        "wallet unspent set differs from the ledger (window >= {}): missing {:?}, not in ledger view {:?}",
        low,
        missing.iter().map(|k| show(k)).collect::<Vec<_>>(),
        extra.iter().map(|k| show(k)).collect::<Vec<_>>()
    );
    // after an unwind the wallet legitimately holds again an output that the unwound block had
    // spent and that has meanwhile dropped below the window (the ledger holds it too; the wallet
    // expires it with the next block it winds)
    if reorganised && missing.is_empty() && extra.iter().all(|k| utxo.get(*k) == Some(&true) && key_bid(k) < low) {
        return Ok(());
    }
    // only the wallet's own outputs can be explained by stale coordinates after an unwind
    let only_stale = missing.is_empty() && extra.iter().all(|k| k[0..33] == w.public_key && !key_fields_match(w, k));
    Err((only_stale, msg))
}

struct Sim {
    tab: Tab,
    w: Wallet,
    pk: SaitoPublicKey,
    sk: SaitoPrivateKey,
    utxo: UtxoSet,
    stack: Vec<Block>,
    committed: BTreeSet<SaitoUTXOSetKey>,
    maxseen: u64,
    gp: u64,
    built: Vec<Transaction>,
    chain: Blockchain,
    dbg: bool,
    rec: Rec,
    dead: bool,
}

impl Sim {
    fn new(kind: &str, gp: u64, dbg: bool) -> Sim {
        let (pk, sk) = keypair(1);
        let wl = Arc::new(RwLock::new(Wallet::new(sk, pk)));
        Sim {
            tab: Tab::new(),
            w: det_wallet(sk, pk),
            pk,
            sk,
            utxo: AHashMap::with_hasher(RandomState::with_seeds(21, 22, 23, 24)),
            stack: vec![],
            committed: BTreeSet::new(),
            maxseen: 0,
            gp,
            built: vec![],
            chain: Blockchain::new(wl, gp.max(1), 0, 0),
            dbg,
            rec: Rec::new(kind, gp),
            dead: false,
        }
    }
    fn top(&self) -> u64 {
        self.stack.last().map(|b| b.id).unwrap_or(0)
    }
    fn wallet_panic(&mut self, op: String, msg: String, ctx: &str) {
        let site = if ctx == "pending" {
            10
        } else if ctx == "snapshot" && msg.contains("left != right") {
            11
        } else if msg.contains("subtract with overflow") {
            3
        } else if msg.contains("add with overflow") {
            if ctx == "stake" {
                7
            } else {
                2
            }
        } else if msg.contains("left != right") {
            1
        } else if msg.contains("slip should be here") || (ctx == "stake" && msg.contains("None")) {
            5
        } else if msg.contains("unwrap()") && msg.contains("None") {
            4
        } else {
            0
        };
        if site == 3 {
            self.rec.failures.push(format!("{}: `available_balance -=` underflowed: {}", ctx, msg));
        }
        if site == 0 {
            self.rec.failures.push(format!("{}: unexpected panic: {}", ctx, msg));
        }
        self.rec.panics.push(site);
        self.rec.push(vec![op], vec![vec![9, site]]);
        self.dead = true;
    }
    fn after_step(&mut self, ctx: &str, with_ledger: bool) {
        if let Err(m) = check_balance(&self.w) {
            self.rec.failures.push(format!("after {}: {}", ctx, m));
        }
        if with_ledger {
            match check_ledger(&self.w, &self.utxo, self.maxseen, self.gp, &self.committed, self.rec.unwinds > 0) {
                Ok(()) => {}
                Err((true, m)) => self.rec.failures.push(format!("after {} (stale coordinates): {}", ctx, m)),
                Err((false, m)) => self.rec.failures.push(format!("after {}: {}", ctx, m)),
            }
        }
    }
    fn wind(&mut self, b: Block, gp: u64, track: bool) {
        let op = format!("OWind {} {}", self.tab.g_block(&b), gp);
        let before = (self.w.get_available_balance(), self.w.slips.len());
        let r = catch_unwind(AssertUnwindSafe(|| self.w.on_chain_reorganization(&b, true, gp)));
        match r {
            Err(e) => self.wallet_panic(op, panic_msg(e), "wind"),
            Ok(_) => {
                if track {
                    for t in &b.transactions {
                        t.on_chain_reorganization(&mut self.utxo, true);
                        for s in &t.from {
                            self.committed.remove(&s.utxoset_key);
                        }
                    }
                    self.maxseen = self.maxseen.max(b.id);
                    self.built.retain(|t| t.from.iter().all(|s| s.amount == 0 || self.utxo.get(&s.utxoset_key) == Some(&true)));
                    self.stack.push(b);
                }
                if before != (self.w.get_available_balance(), self.w.slips.len()) {
                    self.rec.winds_changed += 1;
                }
                let rows = observe(&self.w, &mut self.tab);
                self.rec.push(vec![op], rows);
                self.after_step("wind", track);
            }
        }
    }
    fn unwind(&mut self, b: Block, gp: u64, track: bool) {
        let op = format!("OUnwind {} {}", self.tab.g_block(&b), gp);
        let r = catch_unwind(AssertUnwindSafe(|| self.w.on_chain_reorganization(&b, false, gp)));
        match r {
            Err(e) => self.wallet_panic(op, panic_msg(e), "unwind"),
            Ok(_) => {
                if track {
                    for t in &b.transactions {
                        t.on_chain_reorganization(&mut self.utxo, false);
                        for s in &t.to {
                            self.committed.remove(&s.utxoset_key);
                        }
                    }
                }
                self.rec.unwinds += 1;
                let rows = observe(&self.w, &mut self.tab);
                self.rec.push(vec![op], rows);
                self.after_step("unwind", track);
            }
        }
    }
    fn create(&mut self, call: CreateCall, with_ledger: bool) {
        let ledger = if with_ledger { Some((&self.utxo, &self.chain)) } else { None };
        match do_create(&mut self.rec, &mut self.tab, &mut self.w, &self.sk, &call, ledger, &mut self.committed, self.dbg) {
            Err(()) => self.dead = true,
            Ok(Some(tx)) => self.built.push(tx),
            Ok(None) => {}
        }
    }

    /// a block for the chain kind: no intra-block spending, at least one transaction
    fn gen_chain_block(&mut self, rng: &mut Rng, id: u64) -> Block {
        let (pk2, _) = keypair(2);
        let (pk3, _) = keypair(3);
        let low = self.maxseen.saturating_sub(self.gp);
        let me = self.pk;
        let mut mine: Vec<SaitoUTXOSetKey> =
            sorted_keys(&self.utxo, |k| k[0..33] == me && spendable_ty(k) && key_bid(k) >= low);
        let mut others: Vec<SaitoUTXOSetKey> = sorted_keys(&self.utxo, |k| k[0..33] == pk2 || k[0..33] == pk3);
        let mut used: BTreeSet<SaitoUTXOSetKey> = BTreeSet::new();
        let mut txs: Vec<Transaction> = vec![];
        // automatic rebroadcast of my slips of block id - gp - 1
        if id > self.gp + 1 {
            let old = id - self.gp - 1;
            let olds: Vec<SaitoUTXOSetKey> = sorted_keys(&self.utxo, |k| k[0..33] == me && key_bid(k) == old);
            for k in olds {
                if rng.chance(5, 6) {
                    let mut input = Slip::parse_slip_from_utxokey(&k).unwrap();
                    let payout = if rng.chance(1, 5) { input.amount + input.amount / 10 + 1 } else { input.amount };
                    // the code puts the paid-out amount into the input slip
                    input.amount = payout;
                    let out = mk_slip(&me, payout, SlipType::ATR);
                    txs.push(mk_tx(TransactionType::ATR, vec![input], vec![out]));
                    used.insert(k);
                }
            }
        }
        let n = rng.range(1, 4);
        for _ in 0..n {
            match rng.below(100) {
                0..=39 => {
                    // somebody pays me
                    let input = if !others.is_empty() && rng.chance(3, 4) {
                        let i = rng.below(others.len() as u64) as usize;
                        let k = others.remove(i);
                        if used.contains(&k) {
                            continue;
                        }
                        used.insert(k);
                        Slip::parse_slip_from_utxokey(&k).unwrap()
                    } else {
                        let mut s = mk_slip(&pk2, rng.range(1000, 1_000_000), SlipType::Normal);
                        s.block_id = 0;
                        s.tx_ordinal = rng.range(0, 50);
                        s
                    };
                    let a = match rng.below(10) {
                        0 => 0,
                        1 => 1,
                        2 => 1 + (input.amount / 2),
                        _ => 1 + rng.below(input.amount.min(5000)),
                    };
                    let a = a.min(input.amount);
                    let mut to = vec![mk_slip(&me, a, SlipType::Normal)];
                    if input.amount - a > 0 || rng.chance(1, 3) {
                        let other = if rng.chance(1, 2) { pk2 } else { pk3 };
                        to.push(mk_slip(&other, input.amount - a, SlipType::Normal));
                    }
                    if rng.chance(1, 6) {
                        to.push(mk_slip(&me, rng.range(1, 50), SlipType::Normal));
                    }
                    txs.push(mk_tx(TransactionType::Normal, vec![input], to));
                }
                40..=64 => {
                    // one of my outputs is spent on chain
                    mine.retain(|k| !used.contains(k));
                    if mine.is_empty() {
                        continue;
                    }
                    let cnt = rng.range(1, 2).min(mine.len() as u64);
                    let mut from = vec![];
                    let mut total: u64 = 0;
                    for _ in 0..cnt {
                        let i = rng.below(mine.len() as u64) as usize;
                        let k = mine.remove(i);
                        used.insert(k);
                        total = total.saturating_add(key_amt(&k));
                        from.push(Slip::parse_slip_from_utxokey(&k).unwrap());
                    }
                    let pay = if total > 1 { 1 + rng.below(total - 1) } else { total };
                    let mut to = vec![mk_slip(&pk2, pay, SlipType::Normal)];
                    if total - pay > 0 {
                        to.push(mk_slip(&me, total - pay, SlipType::Normal));
                    }
                    txs.push(mk_tx(TransactionType::Normal, from, to));
                }
                65..=79 => {
                    // a transaction the wallet built earlier lands on chain
                    if self.built.is_empty() {
                        continue;
                    }
                    let i = rng.below(self.built.len() as u64) as usize;
                    let t = self.built[i].clone();
                    if t.from.iter().any(|s| s.amount > 0 && (used.contains(&s.utxoset_key) || self.utxo.get(&s.utxoset_key) != Some(&true))) {
                        continue;
                    }
                    for s in &t.from {
                        used.insert(s.utxoset_key);
                    }
                    self.built.remove(i);
                    let mut t2 = Transaction::default();
                    t2.from = t.from.clone();
                    t2.to = t.to.clone();
                    t2.timestamp = t.timestamp;
                    t2.signature = t.signature;
                    txs.push(t2);
                }
                80..=89 => {
                    // issuance / payout without inputs
                    let ty = *rng.pick(&[SlipType::Normal, SlipType::MinerOutput, SlipType::RouterOutput]);
                    txs.push(mk_tx(TransactionType::Issuance, vec![], vec![mk_slip(&me, rng.range(1, 100_000), ty)]));
                }
                _ => {
                    // golden-ticket-like: zero input and output of my key
                    txs.push(mk_tx(
                        TransactionType::GoldenTicket,
                        vec![mk_slip(&me, 0, SlipType::Normal)],
                        vec![mk_slip(&me, 0, SlipType::Normal)],
                    ));
                }
            }
        }
        if txs.is_empty() {
            txs.push(mk_tx(
                TransactionType::GoldenTicket,
                vec![mk_slip(&pk2, 0, SlipType::Normal)],
                vec![mk_slip(&pk2, 0, SlipType::Normal)],
            ));
        }
        mk_block(id, txs, &me, true)
    }
}

fn pick_request(rng: &mut Rng, w: &Wallet, latest: u64, gp: u64) -> (Vec<u64>, u64) {
    let bal = w.get_available_balance();
    let thr = latest.saturating_sub(gp.wrapping_sub(1));
    let elig: u64 = w
        .unspent_slips
        .iter()
        .filter_map(|k| w.slips.get(k))
        .filter(|s| s.block_id > thr)
        .fold(0u64, |a, s| a.saturating_add(s.amount));
    // the eligible amounts in the order generate_slips will meet them: a request equal to the first
    // one / the first two ends the selection exactly at a slip boundary (`nolan_in >= requested`)
    let in_order: Vec<u64> = w
        .unspent_slips
        .iter()
        .filter_map(|k| w.slips.get(k))
        .filter(|s| s.block_id > thr)
        .map(|s| s.amount)
        .collect();
    let first = in_order.first().copied().unwrap_or(0);
    let first_two = first.saturating_add(in_order.get(1).copied().unwrap_or(0));
    let total = match rng.below(20) {
        0 => 0,
        16 | 17 => first,
        18 => first_two,
        19 => first_two.saturating_add(1).min(bal),
        1 => 1,
        2 => bal / 3,
        3 => bal / 2,
        4 => bal.saturating_sub(1),
        5 => bal,
        6 => bal.saturating_add(1),
        7 => elig,
        8 => elig.saturating_add(1).min(bal),
        9 => elig / 2,
        10 => u64::MAX,
        11 => u64::MAX - bal / 2,
        12 => rng.range(1, 1000),
        _ => {
            if bal > 0 {
                rng.below(bal) + 1
            } else {
                0
            }
        }
    };
    let fee = match rng.below(12) {
        0 => 1,
        1 => 10,
        2 => bal,
        3 => bal.saturating_add(1),
        4 => u64::MAX,
        5 => total.min(7),
        _ => 0,
    };
    let total = if fee <= bal && rng.chance(3, 4) { total.saturating_sub(fee.min(total)) } else { total };
    let n = rng.range(1, 3);
    let mut pays = vec![];
    let mut left = total;
    for i in 0..n {
        if i == n - 1 {
            pays.push(left);
        } else {
            let p = if left > 0 { rng.below(left) + if rng.chance(1, 2) { 1 } else { 0 } } else { 0 };
            pays.push(p);
            left -= p;
        }
    }
    (pays, fee)
}

/// Oracle-only probe of the NFT builders (not modelled: nothing is recorded after it, so it
/// runs at the end of a case). create_bound_transaction on one of the wallet's Normal slips,
/// the built transaction wound as the next block, then create_send_bound_transaction.
fn bound_probe(sim: &mut Sim, rng: &mut Rng, rt: &tokio::runtime::Runtime, deposit_choice: u64) {
    let (pk2, _) = keypair(2);
    let me = sim.pk;
    let latest = sim.top();
    let gp = sim.gp;
    let mut keys: Vec<SaitoUTXOSetKey> =
        sim.w.unspent_slips.iter().filter(|k| k[58] == SlipType::Normal as u8 && key_fields_match(&sim.w, k)).cloned().collect();
    keys.sort();
    if keys.is_empty() {
        return;
    }
    let k = keys[rng.below(keys.len() as u64) as usize];
    let input = Slip::parse_slip_from_utxokey(&k).unwrap();
    let deposit = match deposit_choice {
        0 => input.amount,
        1 => input.amount / 2 + 1,
        2 => input.amount + 1,
        _ => input.amount.saturating_add(rng.range(1, 5000)),
    };
    let pre = sim.w.clone();
    sim.rec.bound_calls += 1;
    let r = catch_unwind(AssertUnwindSafe(|| {
        rt.block_on(sim.w.create_bound_transaction(
            input.amount,
            input.block_id,
            input.tx_ordinal,
            input.slip_index as u64,
            deposit,
            vec![],
            &me,
            None,
            latest,
            gp,
            "probe".to_string(),
        ))
    }));
    let tx = match r {
        Err(e) => {
            let msg = panic_msg(e);
            if msg.contains("subtract with overflow") {
                sim.rec.failures.push(format!("create_bound_transaction: `available_balance -=` underflowed: {}", msg));
            } else {
                sim.rec.notes.push(format!("create_bound_transaction panicked: {}", msg));
            }
            return;
        }
        Ok(Err(_)) => {
            if sim.w != pre {
                sim.rec.failures.push("create_bound_transaction returned Err but changed the wallet".to_string());
            }
            return;
        }
        Ok(Ok(tx)) => tx,
    };
    if let Err(m) = check_balance(&sim.w) {
        sim.rec.failures.push(format!("after create_bound_transaction: {}", m));
    }
    let in_keys: Vec<SaitoUTXOSetKey> = tx.from.iter().map(|s| s.get_utxoset_key()).collect();
    let uniq: BTreeSet<&SaitoUTXOSetKey> = in_keys.iter().collect();
    let mut bound_defect: Vec<String> = vec![];
    if uniq.len() != in_keys.len() {
        bound_defect.push(format!(
            "create_bound_transaction(input {}:{}:{} amount {}, deposit {}) references the same output twice",
            input.block_id, input.tx_ordinal, input.slip_index, input.amount, deposit
        ));
    }
    for (s, key) in tx.from.iter().zip(in_keys.iter()) {
        if s.amount > 0 && !pre.unspent_slips.contains(key) {
            let m = "create_bound_transaction: an input is not an output the wallet listed as unspent".to_string();
            sim.rec.failures.push(m);
        }
        if s.amount > 0 && sim.w.unspent_slips.contains(key) {
            bound_defect.push(format!(
                "create_bound_transaction leaves its input {}:{}:{} amount {} in unspent_slips / available_balance",
                s.block_id, s.tx_ordinal, s.slip_index, s.amount
            ));
        }
    }
    let count = |l: &Vec<Slip>| -> u128 { l.iter().filter(|s| s.slip_type != SlipType::Bound).map(|s| s.amount as u128).sum() };
    let (sum_in, sum_out) = (count(&tx.from), count(&tx.to));
    let distinct_in: u128 = {
        let mut seen = BTreeSet::new();
        tx.from.iter().zip(in_keys.iter()).filter(|(s, k)| s.slip_type != SlipType::Bound && seen.insert(**k)).map(|(s, _)| s.amount as u128).sum()
    };
    if sum_out > distinct_in {
        let m = format!(
            "create_bound_transaction: outputs {} exceed the distinct inputs {} (inputs as listed {})",
            sum_out, distinct_in, sum_in
        );
        // the builder has no balance check of its own: only a request the other eligible slips
        // could have funded is judged
        let thr = latest.saturating_sub(gp.wrapping_sub(1));
        let others: u128 = pre
            .unspent_slips
            .iter()
            .filter(|key| **key != k)
            .filter_map(|key| pre.slips.get(key))
            .filter(|s| s.block_id > thr)
            .map(|s| s.amount as u128)
            .sum();
        let additional = deposit.saturating_sub(input.amount) as u128;
        if uniq.len() != in_keys.len() {
            bound_defect.push(m);
        } else if others >= additional {
            sim.rec.failures.push(m);
        }
    }
    for d in bound_defect {
        sim.rec.failures.push(d);
    }
    // the transaction lands in the next block; the wallet records the NFT
    let mut t2 = tx.clone();
    t2.generate(&me, 0, sim.top() + 1);
    let b = mk_block(sim.top() + 1, vec![t2], &me, true);
    if catch_unwind(AssertUnwindSafe(|| sim.w.on_chain_reorganization(&b, true, gp))).is_err() {
        sim.rec.notes.push("winding the bound transaction panicked".to_string());
        return;
    }
    if let Err(m) = check_balance(&sim.w) {
        sim.rec.failures.push(format!("after winding the bound transaction: {}", m));
    }
    for t in &b.transactions {
        t.on_chain_reorganization(&mut sim.utxo, true);
    }
    if sim.w.nfts.is_empty() {
        sim.rec.failures.push("the wallet did not record the NFT it received".to_string());
        return;
    }
    let nft = sim.w.nfts[0].clone();
    let pre2 = sim.w.clone();
    let r = catch_unwind(AssertUnwindSafe(|| rt.block_on(sim.w.create_send_bound_transaction(1, nft.id.clone(), vec![], &pk2))));
    match r {
        Err(e) => sim.rec.notes.push(format!("create_send_bound_transaction panicked: {}", panic_msg(e))),
        Ok(Err(_)) => sim.rec.failures.push("create_send_bound_transaction refused an NFT the wallet holds".to_string()),
        Ok(Ok(stx)) => {
            // a transfer by the holder validates against the ledger that holds the NFT (c1271fb)
            let mut v = stx.clone();
            v.generate(&me, 0, 0);
            if !v.validate(&sim.utxo, &sim.chain, true) {
                sim.rec.bound_send_invalid += 1;
                sim.rec.failures.push("the NFT transfer built by the holder does not validate against the ledger".to_string());
            }
            let ks: Vec<SaitoUTXOSetKey> = stx.from.iter().map(|s| s.utxoset_key).collect();
            if ks != vec![nft.slip1, nft.slip2, nft.slip3] {
                sim.rec.failures.push("create_send_bound_transaction does not spend the three slips of the NFT".to_string());
            }
            let u: BTreeSet<&SaitoUTXOSetKey> = ks.iter().collect();
            if u.len() != ks.len() {
                sim.rec.failures.push("create_send_bound_transaction references the same output twice".to_string());
            }
            if stx.to.len() != 3 || stx.to[1].public_key != pk2 || stx.to[1].amount != stx.from[1].amount {
                sim.rec.failures.push("create_send_bound_transaction does not hand the deposit to the recipient".to_string());
            }
            if sim.w.nfts.iter().any(|n| n.id == nft.id) {
                sim.rec.failures.push("the sent NFT is still listed by the wallet".to_string());
            }
            if sim.w.get_available_balance() != pre2.get_available_balance() || sim.w.unspent_slips != pre2.unspent_slips {
                sim.rec.failures.push("create_send_bound_transaction changed the balance / unspent set".to_string());
            }
        }
    }
}

// ------------------------------------------------------------------ case kinds

/// reorganisation-tolerant chain: wind / unwind (stack discipline) / create / pending
fn case_chain(rng: &mut Rng, dbg: bool, len: usize, rt: &tokio::runtime::Runtime) -> Rec {
    let gp = *rng.pick(&[3u64, 3, 4, 5, 8]);
    let mut sim = Sim::new("chain", gp, dbg);
    let (pk2, _) = keypair(2);
    let (pk3, _) = keypair(3);
    let allow_unwind = rng.chance(1, 2);
    for _ in 0..len {
        if sim.dead {
            break;
        }
        let r = rng.below(100);
        if r < 50 || sim.stack.is_empty() {
            let id = sim.top() + 1;
            let b = sim.gen_chain_block(rng, id);
            sim.wind(b, gp, true);
        } else if r < 62 && allow_unwind && sim.top() > sim.maxseen.saturating_sub(gp) {
            // reorganisations stay inside the window: the blocks wound afterwards have ids above
            // (highest id ever wound) - gp, which is what the ledger oracle's window assumes
            let b = sim.stack.pop().unwrap();
            sim.unwind(b, gp, true);
        } else if r < 94 {
            let latest = sim.top();
            let (mut pays, fee) = pick_request(rng, &sim.w, latest, gp);
            if rng.chance(1, 40) {
                // around the u8::MAX limit of outputs (one of them is the change)
                let n = *rng.pick(&[253usize, 254, 255, 256]);
                let unit = if sim.w.get_available_balance() > 1000 { 1 } else { 0 };
                pays = vec![unit; n];
            }
            let mut keys: Vec<SaitoPublicKey> =
                pays.iter().map(|_| if rng.chance(1, 2) { pk2 } else { pk3 }).collect();
            if rng.chance(1, 40) {
                keys.pop();
            }
            if rng.chance(1, 12) && !keys.is_empty() {
                keys[0] = sim.pk;
            }
            sim.create(CreateCall { keys, payments: pays, fee, latest, gp, single: rng.chance(1, 2) }, true);
        } else if !sim.built.is_empty() {
            let t = sim.built[rng.below(sim.built.len() as u64) as usize].clone();
            let h = sim.tab.h(&t.hash_for_signature.unwrap());
            let op = format!("OPending (Some 1) false (Some {})", h);
            sim.w.add_to_pending(t);
            let rows = observe(&sim.w, &mut sim.tab);
            sim.rec.push(vec![op], rows);
        }
    }
    if !sim.dead && rng.chance(1, 2) {
        let choice = rng.below(4);
        bound_probe(&mut sim, rng, rt, choice);
    }
    sim.rec
}

/// arbitrary API-level sequences (no ledger): every public mutator
fn case_raw(rng: &mut Rng, dbg: bool, len: usize, rt: &tokio::runtime::Runtime) -> Rec {
    let gp = *rng.pick(&[0u64, 1, 2, 3, 5]);
    let mut sim = Sim::new("raw", gp, dbg);
    let me = sim.pk;
    let (pk2, _) = keypair(2);
    let mut blocks: Vec<Block> = vec![];
    let big = rng.chance(1, 6);
    let tys = [
        SlipType::Normal,
        SlipType::Normal,
        SlipType::Normal,
        SlipType::ATR,
        SlipType::MinerOutput,
        SlipType::BlockStake,
        SlipType::BlockStake,
        SlipType::Bound,
    ];
    let amount = |rng: &mut Rng| -> u64 {
        match rng.below(12) {
            0 => 0,
            1 => 1,
            2 if big => u64::MAX,
            3 if big => u64::MAX / 2 + rng.below(1000),
            _ => rng.range(1, 10_000),
        }
    };
    for _ in 0..len {
        if sim.dead {
            break;
        }
        match rng.below(100) {
            0..=17 => {
                // add_slip with the coordinates of the slip (what a consistent caller passes)
                let mut s = mk_slip(if rng.chance(9, 10) { &me } else { &pk2 }, amount(rng), *rng.pick(&tys));
                s.block_id = if rng.chance(1, 40) { 0 } else { rng.range(1, 9) };
                s.tx_ordinal = rng.range(0, 3);
                s.slip_index = rng.range(0, 2) as u8;
                if rng.chance(1, 2) {
                    s.generate_utxoset_key();
                }
                let lc = rng.chance(3, 4);
                let op = format!("OAddSlip {} {} {} {}", s.block_id, s.tx_ordinal, sim.tab.g_slip(&s), gal::boolean(lc));
                let (bid, txi) = (s.block_id, s.tx_ordinal);
                let r = catch_unwind(AssertUnwindSafe(|| sim.w.add_slip(bid, txi, &s, lc, None)));
                match r {
                    Err(e) => sim.wallet_panic(op, panic_msg(e), "add_slip"),
                    Ok(()) => {
                        let rows = observe(&sim.w, &mut sim.tab);
                        sim.rec.push(vec![op], rows);
                        sim.after_step("add_slip", false);
                    }
                }
            }
            18..=27 => {
                // delete_slip: an existing key (cached) or a slip whose cache is not set
                let mut keys: Vec<SaitoUTXOSetKey> = sim.w.slips.keys().cloned().collect();
                keys.sort();
                let s = if !keys.is_empty() && rng.chance(3, 4) {
                    let k = keys[rng.below(keys.len() as u64) as usize];
                    let mut s = Slip::parse_slip_from_utxokey(&k).unwrap();
                    if rng.chance(1, 5) {
                        // same fields, cache not generated: the code looks up the zero key
                        s.utxoset_key = [0; 59];
                        s.is_utxoset_key_set = false;
                    }
                    s
                } else {
                    let mut s = mk_slip(&me, amount(rng), SlipType::Normal);
                    s.block_id = rng.range(0, 9);
                    s.generate_utxoset_key();
                    s
                };
                let op = format!("ODeleteSlip {}", sim.tab.g_slip(&s));
                let r = catch_unwind(AssertUnwindSafe(|| sim.w.delete_slip(&s, None)));
                match r {
                    Err(e) => sim.wallet_panic(op, panic_msg(e), "delete_slip"),
                    Ok(()) => {
                        let rows = observe(&sim.w, &mut sim.tab);
                        sim.rec.push(vec![op], rows);
                        sim.after_step("delete_slip", false);
                    }
                }
            }
            28..=49 => {
                // wind / unwind an arbitrary block (ids in any order, NFT groups, SPV)
                let lo = if rng.chance(1, 30) { 0 } else { 1 };
                let id = rng.range(lo, 12);
                let ntx = rng.range(0, 3);
                let mut txs = vec![];
                for _ in 0..ntx {
                    let mut from = vec![];
                    let mut to = vec![];
                    let mut keys: Vec<SaitoUTXOSetKey> = sim.w.slips.keys().cloned().collect();
                    keys.sort();
                    for _ in 0..rng.range(0, 3) {
                        if !keys.is_empty() && rng.chance(2, 3) {
                            from.push(Slip::parse_slip_from_utxokey(&keys[rng.below(keys.len() as u64) as usize]).unwrap());
                        } else {
                            let mut s = mk_slip(if rng.chance(1, 2) { &me } else { &pk2 }, amount(rng), *rng.pick(&tys));
                            s.block_id = rng.range(0, 9);
                            from.push(s);
                        }
                    }
                    for _ in 0..rng.range(0, 4) {
                        to.push(mk_slip(if rng.chance(3, 4) { &me } else { &pk2 }, amount(rng), *rng.pick(&tys)));
                    }
                    if rng.chance(1, 8) {
                        // NFT group
                        let grp = vec![
                            mk_slip(&me, 1, SlipType::Bound),
                            mk_slip(&me, rng.range(1, 500), SlipType::Normal),
                            mk_slip(&pk2, 0, SlipType::Bound),
                        ];
                        if rng.chance(1, 2) {
                            let mut g = grp.clone();
                            g.extend(to);
                            to = g;
                        } else {
                            to.extend(grp.clone());
                        }
                        if rng.chance(1, 3) {
                            from.extend(grp);
                        }
                    }
                    let ty = if rng.chance(1, 7) { TransactionType::SPV } else { TransactionType::Normal };
                    let mut t = mk_tx(ty, from, to);
                    if ty == TransactionType::SPV {
                        t.txs_replacements = *rng.pick(&[0u32, 2, 3, 5]);
                    }
                    txs.push(t);
                }
                let with_hash = !rng.chance(1, 25);
                let b = mk_block(id, txs, &me, with_hash);
                blocks.push(b.clone());
                let g = *rng.pick(&[gp, gp, 2, 5]);
                if rng.chance(3, 4) {
                    sim.wind(b, g, false);
                } else {
                    sim.unwind(b, g, false);
                }
            }
            50..=55 => {
                let limit = rng.range(0, 10);
                let op = format!("ORemoveOld {}", limit);
                let r = catch_unwind(AssertUnwindSafe(|| sim.w.remove_old_slips(limit)));
                match r {
                    Err(e) => sim.wallet_panic(op, panic_msg(e), "remove_old_slips"),
                    Ok(()) => {
                        let rows = observe(&sim.w, &mut sim.tab);
                        sim.rec.push(vec![op], rows);
                        sim.after_step("remove_old_slips", false);
                    }
                }
            }
            56..=60 => {
                if blocks.is_empty() {
                    continue;
                }
                let b = blocks[rng.below(blocks.len() as u64) as usize].clone();
                let op = format!("ODeleteBlock {}", sim.tab.g_block(&b));
                let r = catch_unwind(AssertUnwindSafe(|| sim.w.delete_block(&b)));
                match r {
                    Err(e) => sim.wallet_panic(op, panic_msg(e), "delete_block"),
                    Ok(_) => {
                        let rows = observe(&sim.w, &mut sim.tab);
                        sim.rec.push(vec![op], rows);
                        sim.after_step("delete_block", false);
                    }
                }
            }
            61..=82 => {
                let latest = rng.range(0, 12);
                let g = if rng.chance(1, 25) { 0 } else { *rng.pick(&[gp.max(1), 2, 5, 100]) };
                let (pays, fee) = pick_request(rng, &sim.w, latest, g);
                let mut keys: Vec<SaitoPublicKey> = pays.iter().map(|_| pk2).collect();
                if rng.chance(1, 30) {
                    keys.push(me);
                }
                sim.create(CreateCall { keys, payments: pays, fee, latest, gp: g, single: rng.chance(1, 2) }, false);
            }
            91..=93 => {
                // update_from_balance_snapshot: slips as a BalanceSnapshot carries them (parsed from
                // utxo keys, so fields and cached key agree); duplicates, other keys' slips, every
                // type; rarely a slip whose key was never generated (the code asserts on it)
                let mut slips: Vec<Slip> = vec![];
                let mut keys: Vec<SaitoUTXOSetKey> = sim.w.slips.keys().cloned().collect();
                keys.sort();
                for _ in 0..rng.range(0, 5) {
                    let mut sl = if !keys.is_empty() && rng.chance(1, 3) {
                        Slip::parse_slip_from_utxokey(&keys[rng.below(keys.len() as u64) as usize]).unwrap()
                    } else {
                        let mut x = mk_slip(if rng.chance(9, 10) { &me } else { &pk2 }, amount(rng).max(1), *rng.pick(&tys));
                        x.block_id = rng.range(1, 9);
                        x.tx_ordinal = rng.range(0, 3);
                        x.slip_index = rng.range(0, 2) as u8;
                        x.generate_utxoset_key();
                        x
                    };
                    if rng.chance(1, 30) {
                        sl.utxoset_key = [0; 59];
                        sl.is_utxoset_key_set = false;
                    }
                    if rng.chance(1, 5) {
                        slips.push(sl.clone());
                    }
                    slips.push(sl);
                }
                let gs: Vec<String> = slips.iter().map(|x| sim.tab.g_slip(x)).collect();
                let op = format!("OSnapshot {}", gal::list(&gs));
                let snap = BalanceSnapshot { latest_block_id: 0, latest_block_hash: [0; 32], timestamp: 0, slips };
                let r = catch_unwind(AssertUnwindSafe(|| sim.w.update_from_balance_snapshot(snap, None)));
                match r {
                    Err(e) => sim.wallet_panic(op, panic_msg(e), "snapshot"),
                    Ok(()) => {
                        let rows = observe(&sim.w, &mut sim.tab);
                        sim.rec.push(vec![op], rows);
                        sim.after_step("update_from_balance_snapshot", false);
                        sim.rec.snapshots += 1;
                    }
                }
            }
            94..=95 => {
                // reset (keys kept)
                let op = "OReset".to_string();
                let mut storage = Storage::new(Box::new(world::MemIo::new(Default::default())));
                let r = catch_unwind(AssertUnwindSafe(|| rt.block_on(sim.w.reset(&mut storage, None, true))));
                match r {
                    Err(e) => sim.wallet_panic(op, panic_msg(e), "reset"),
                    Ok(()) => {
                        let rows = observe(&sim.w, &mut sim.tab);
                        sim.rec.push(vec![op], rows);
                        sim.after_step("reset", false);
                        if sim.w.get_available_balance() != 0 || !sim.w.slips.is_empty() || !sim.w.unspent_slips.is_empty() {
                            sim.rec.failures.push("reset left funds in the wallet".to_string());
                        }
                    }
                }
            }
            83..=90 => {
                // staking transaction
                let sorder: Vec<SaitoUTXOSetKey> = sim.w.staking_slips.iter().cloned().collect();
                let uorder: Vec<SaitoUTXOSetKey> = sim.w.unspent_slips.iter().cloned().collect();
                let bal = sim.w.get_available_balance();
                let amount = match rng.below(6) {
                    0 => 0,
                    1 => bal,
                    2 => bal.saturating_add(1),
                    3 => bal / 2,
                    _ => rng.range(1, 20_000),
                };
                let unlocked = rng.range(0, 10);
                let lastvalid = rng.range(0, 6);
                let op = format!(
                    "OStake {} {} {} {} {}",
                    sim.tab.g_keys(&sorder),
                    sim.tab.g_keys(&uorder),
                    amount,
                    unlocked,
                    lastvalid
                );
                let pre = sim.w.clone();
                let r = catch_unwind(AssertUnwindSafe(|| sim.w.create_staking_transaction(amount, unlocked, lastvalid)));
                match r {
                    Err(e) => sim.wallet_panic(op, panic_msg(e), "stake"),
                    Ok(Err(_)) => {
                        let mut rows = observe(&sim.w, &mut sim.tab);
                        rows.push(vec![7, 2]);
                        sim.rec.push(vec![op], rows);
                        if sim.w != pre {
                            sim.rec.failures.push("create_staking_transaction returned Err but changed the wallet".to_string());
                        }
                        sim.after_step("create_staking_transaction (refused)", false);
                    }
                    Ok(Ok(tx)) => {
                        let mut rows = observe(&sim.w, &mut sim.tab);
                        rows.extend(tx_rows(&tx, &mut sim.tab));
                        sim.rec.push(vec![op], rows);
                        sim.after_step("create_staking_transaction", false);
                        let ks: Vec<SaitoUTXOSetKey> = tx.from.iter().map(|s| s.utxoset_key).collect();
                        let uniq: BTreeSet<&SaitoUTXOSetKey> = ks.iter().collect();
                        if uniq.len() != ks.len() {
                            let m = "staking transaction references the same output twice".to_string();
                            sim.rec.failures.push(m);
                        }
                        let sin: u128 = tx.from.iter().map(|s| s.amount as u128).sum();
                        let sout: u128 = tx.to.iter().map(|s| s.amount as u128).sum();
                        let held: u128 = pre.slips.values().map(|s| s.amount as u128).sum();
                        if sout > sin && tx.from.len() < 255 && held < (1u128 << 64) {
                            sim.rec.failures.push(format!("staking transaction outputs {} exceed inputs {}", sout, sin));
                        }
                    }
                }
            }
            _ => {
                // add_to_pending
                let first = match rng.below(40) {
                    0 => None,
                    1 => Some(pk2),
                    _ => Some(me),
                };
                let is_gt = rng.chance(1, 40);
                let with_hash = !rng.chance(1, 40);
                let mut t = Transaction::default();
                if is_gt {
                    t.transaction_type = TransactionType::GoldenTicket;
                }
                if let Some(p) = first {
                    t.from.push(mk_slip(&p, 0, SlipType::Normal));
                }
                t.timestamp = rng.range(1, 5);
                if with_hash {
                    t.generate_hash_for_signature();
                }
                let fp = first.map(|p| format!("(Some {})", sim.tab.pk(&p))).unwrap_or("None".to_string());
                let hh = t.hash_for_signature.map(|h| format!("(Some {})", sim.tab.h(&h))).unwrap_or("None".to_string());
                let op = format!("OPending {} {} {}", fp, gal::boolean(is_gt), hh);
                let r = catch_unwind(AssertUnwindSafe(|| sim.w.add_to_pending(t)));
                match r {
                    Err(e) => sim.wallet_panic(op, panic_msg(e), "pending"),
                    Ok(()) => {
                        let rows = observe(&sim.w, &mut sim.tab);
                        sim.rec.push(vec![op], rows);
                    }
                }
            }
        }
    }
    sim.rec
}

/// scripted reproductions of the listed findings (unit level, synthetic blocks)
fn case_scripted(which: u64, dbg: bool, rt: &tokio::runtime::Runtime) -> Rec {
    let (pk2, _) = keypair(2);
    match which {
        0 => {
            // window edge: slips of block 1 are "about to be rebroadcast" at latest 5, gp 5
            let mut sim = Sim::new("scripted-edge", 5, dbg);
            let me = sim.pk;
            let b1 = mk_block(1, vec![mk_tx(TransactionType::Issuance, vec![], vec![mk_slip(&me, 1000, SlipType::Normal)])], &me, true);
            sim.wind(b1, 5, true);
            for id in 2..=4u64 {
                let b = mk_block(id, vec![mk_tx(TransactionType::Issuance, vec![], vec![mk_slip(&pk2, 1, SlipType::Normal)])], &me, true);
                sim.wind(b, 5, true);
            }
            let b5 = mk_block(5, vec![mk_tx(TransactionType::Issuance, vec![], vec![mk_slip(&me, 100, SlipType::Normal)])], &me, true);
            sim.wind(b5, 5, true);
            sim.create(CreateCall { keys: vec![pk2], payments: vec![500], fee: 0, latest: 5, gp: 5, single: true }, true);
            sim.rec
        }
        1 => {
            // payment + fee wraps (release) / panics (debug)
            let mut sim = Sim::new("scripted-wrap", 5, dbg);
            let me = sim.pk;
            let b1 = mk_block(1, vec![mk_tx(TransactionType::Issuance, vec![], vec![mk_slip(&me, 1000, SlipType::Normal)])], &me, true);
            sim.wind(b1, 5, true);
            sim.create(CreateCall { keys: vec![pk2], payments: vec![u64::MAX], fee: 2, latest: 1, gp: 5, single: true }, true);
            sim.rec
        }
        2 => {
            // more than 255 inputs: add_from_slip drops the rest
            let mut sim = Sim::new("scripted-cap", 100, dbg);
            let me = sim.pk;
            let mut txs = vec![];
            for _ in 0..2 {
                txs.push(mk_tx(TransactionType::Issuance, vec![], (0..150).map(|_| mk_slip(&me, 1, SlipType::Normal)).collect()));
            }
            let b1 = mk_block(1, txs, &me, true);
            sim.wind(b1, 100, true);
            sim.create(CreateCall { keys: vec![pk2], payments: vec![300], fee: 0, latest: 1, gp: 100, single: true }, true);
            sim.rec
        }
        4 => {
            // more than 255 outputs: add_to_slip drops the rest (outputs <= inputs still holds)
            let mut sim = Sim::new("scripted-outcap", 5, dbg);
            let me = sim.pk;
            let b1 = mk_block(1, vec![mk_tx(TransactionType::Issuance, vec![], vec![mk_slip(&me, 1000, SlipType::Normal)])], &me, true);
            sim.wind(b1, 5, true);
            sim.create(
                CreateCall { keys: vec![pk2; 300], payments: vec![1; 300], fee: 5, latest: 1, gp: 5, single: false },
                true,
            );
            sim.rec
        }
        5 => {
            // NFT builder: its own input stays in unspent_slips, the top-up selection takes it again
            let mut sim = Sim::new("scripted-bound", 5, dbg);
            let me = sim.pk;
            let b1 = mk_block(1, vec![mk_tx(TransactionType::Issuance, vec![], vec![mk_slip(&me, 100, SlipType::Normal)])], &me, true);
            sim.wind(b1, 5, true);
            let mut r = Rng::new(1);
            bound_probe(&mut sim, &mut r, rt, 3);
            sim.rec
        }
        6 => {
            // update_from_balance_snapshot keeps staking_slips and files the staked slip as unspent
            let mut sim = Sim::new("scripted-snapshot", 5, dbg);
            let me = sim.pk;
            let mut st = mk_slip(&me, 645, SlipType::BlockStake);
            st.block_id = 4;
            st.tx_ordinal = 2;
            st.slip_index = 1;
            st.generate_utxoset_key();
            let op = format!("OAddSlip 4 2 {} true", sim.tab.g_slip(&st));
            sim.w.add_slip(4, 2, &st, true, None);
            let rows = observe(&sim.w, &mut sim.tab);
            sim.rec.push(vec![op], rows);
            let op = format!("OSnapshot [{}]", sim.tab.g_slip(&st));
            let snap = BalanceSnapshot { latest_block_id: 0, latest_block_hash: [0; 32], timestamp: 0, slips: vec![st.clone()] };
            sim.w.update_from_balance_snapshot(snap, None);
            let rows = observe(&sim.w, &mut sim.tab);
            sim.rec.push(vec![op], rows);
            sim.after_step("update_from_balance_snapshot", false);
            let sorder: Vec<SaitoUTXOSetKey> = sim.w.staking_slips.iter().cloned().collect();
            let uorder: Vec<SaitoUTXOSetKey> = sim.w.unspent_slips.iter().cloned().collect();
            let op = format!("OStake {} {} 1000 10 0", sim.tab.g_keys(&sorder), sim.tab.g_keys(&uorder));
            let pre = sim.w.clone();
            if let Ok(tx) = sim.w.create_staking_transaction(1000, 10, 0) {
                let mut rows = observe(&sim.w, &mut sim.tab);
                rows.extend(tx_rows(&tx, &mut sim.tab));
                sim.rec.push(vec![op], rows);
                let ks: Vec<SaitoUTXOSetKey> = tx.from.iter().map(|s| s.utxoset_key).collect();
                let uniq: BTreeSet<&SaitoUTXOSetKey> = ks.iter().collect();
                if uniq.len() != ks.len() {
                    sim.rec.failures.push("staking transaction references the same output twice".to_string());
                }
                if sim.w.staking_slips.iter().any(|k| sim.w.unspent_slips.contains(k)) || pre.get_available_balance() != 0 {
                    sim.rec.failures.push("a staked slip of the snapshot is counted as spendable".to_string());
                }
            } else {
                let mut rows = observe(&sim.w, &mut sim.tab);
                rows.push(vec![7, 2]);
                sim.rec.push(vec![op], rows);
            }
            sim.rec
        }
        7 => {
            // lite block: a merged SPV placeholder (txs_replacements = 3) ahead of the payment to
            // the wallet; the recorded transaction ordinal must be that of the full block, or the
            // wallet later builds an input the ledger does not have
            let mut sim = Sim::new("scripted-spv", 5, dbg);
            let me = sim.pk;
            let mut spv = mk_tx(TransactionType::SPV, vec![], vec![]);
            spv.txs_replacements = 3;
            let pay = mk_tx(TransactionType::Issuance, vec![], vec![mk_slip(&me, 1000, SlipType::Normal)]);
            let mut spv2 = mk_tx(TransactionType::SPV, vec![], vec![]);
            spv2.txs_replacements = 2;
            let pay2 = mk_tx(TransactionType::Issuance, vec![], vec![mk_slip(&pk2, 5, SlipType::Normal), mk_slip(&me, 70, SlipType::Normal)]);
            let b1 = mk_block(1, vec![spv, pay, spv2, pay2], &me, true);
            sim.wind(b1, 5, true);
            sim.create(CreateCall { keys: vec![pk2], payments: vec![1050], fee: 3, latest: 1, gp: 5, single: true }, true);
            sim.rec
        }
        _ => {
            // unwind re-adds a spent input under the spending block's id
            let mut sim = Sim::new("scripted-stale", 5, dbg);
            let me = sim.pk;
            let b1 = mk_block(1, vec![mk_tx(TransactionType::Issuance, vec![], vec![mk_slip(&me, 1000, SlipType::Normal)])], &me, true);
            let spent = b1.transactions[0].to[0].clone();
            sim.wind(b1, 5, true);
            let b2 = mk_block(2, vec![mk_tx(TransactionType::Issuance, vec![], vec![mk_slip(&pk2, 1, SlipType::Normal)])], &me, true);
            sim.wind(b2, 5, true);
            let b3 = mk_block(3, vec![mk_tx(TransactionType::Normal, vec![spent], vec![mk_slip(&pk2, 1000, SlipType::Normal)])], &me, true);
            sim.wind(b3.clone(), 5, true);
            sim.stack.pop();
            sim.unwind(b3, 5, true);
            sim.create(CreateCall { keys: vec![pk2], payments: vec![400], fee: 0, latest: 2, gp: 5, single: true }, true);
            sim.rec
        }
    }
}

/// node level: real chain through Blockchain::add_block
/// `fees`: transactions may pay fees. With fees the treasury fills and the rebroadcast payout
/// multiplier exceeds 1, at which point Block::create tends to produce blocks its own validation
/// rejects (rebroadcast input carries the paid-out amount: not C19's business) and the chain ends.
async fn case_node(rng: &mut Rng, dbg: bool, gp: u64, extra_len: u64, fees: bool) -> (Rec, Vec<Block>) {
    let mut rec = Rec::new("node", gp);
    let mut tab = Tab::new();
    let params = Params { genesis_period: gp, ..Params::default() };
    let mut node = Node::new(&params, 1);
    {
        let mut w = node.wallet_lock.write().await;
        fix_hashers(&mut w);
    }
    let (pk2, sk2) = keypair(2);
    let (pk3, sk3) = keypair(3);
    let me = node.pk;
    let mut committed: BTreeSet<SaitoUTXOSetKey> = BTreeSet::new();
    let mut built: Vec<Transaction> = vec![];
    let mut blocks: Vec<Block> = vec![];
    let g = make_genesis(
        &node,
        1000,
        &[(me, rng.range(100_000, 2_000_000)), (pk2, 5_000_000), (me, rng.range(1, 500)), (pk3, 3_000_000)],
    )
    .await
    .unwrap();
    let total = 2 * gp + 4 + extra_len;
    let mut next: Option<Block> = Some(g);
    let mut i: u64 = 0;
    while let Some(b) = next.take() {
        let class = node.add_block(b.clone()).await;
        if class != world::AddClass::OnChain {
            let txs: Vec<String> = b
                .transactions
                .iter()
                .map(|t| {
                    format!(
                        "{:?} from {:?} to {:?}",
                        t.transaction_type,
                        t.from.iter().map(|s| (s.public_key[32], s.block_id, s.tx_ordinal, s.slip_index, s.amount)).collect::<Vec<_>>(),
                        t.to.iter().map(|s| (s.public_key[32], s.amount, s.slip_type as u8)).collect::<Vec<_>>()
                    )
                })
                .collect();
            rec.notes.push(format!("block {} was not accepted on chain: {:?} txs {:?}", b.id, class, txs));
            break;
        }
        // model: wind, then the wallet's delete_block of the purged block
        let mut ops = vec![format!("OWind {} {}", tab.g_block(&b), gp)];
        if b.id >= 2 * gp + 1 {
            if let Some(p) = blocks.iter().find(|x| x.id == b.id - 2 * gp) {
                ops.push(format!("ODeleteBlock {}", tab.g_block(p)));
            }
        }
        for t in &b.transactions {
            for s in &t.from {
                committed.remove(&s.utxoset_key);
            }
        }
        blocks.push(b.clone());
        let latest = node.blockchain.get_latest_block_id();
        {
            let w = node.wallet_lock.read().await;
            let rows = observe(&w, &mut tab);
            rec.push(ops, rows);
            rec.winds_changed += 1;
            if let Err(m) = check_balance(&w) {
                rec.failures.push(format!("after block {}: {}", b.id, m));
            }
            match check_ledger(&w, &node.blockchain.utxoset, latest, gp, &committed, false) {
                Ok(()) => {}
                Err((true, m)) => rec.failures.push(format!("after block {} (stale coordinates): {}", b.id, m)),
                Err((false, m)) => rec.failures.push(format!("after block {}: {}", b.id, m)),
            }
        }
        built.retain(|t| t.from.iter().all(|s| s.amount == 0 || node.blockchain.utxoset.get(&s.utxoset_key) == Some(&true)));
        // build transactions with the node's wallet
        for _ in 0..rng.range(0, 2) {
            let mut w = node.wallet_lock.write().await;
            let (pays, fee) = pick_request(rng, &w, latest, gp);
            let keys: Vec<SaitoPublicKey> = pays.iter().map(|_| if rng.chance(1, 2) { pk2 } else { pk3 }).collect();
            let call = CreateCall { keys, payments: pays, fee, latest, gp, single: rng.chance(1, 2) };
            let r = do_create(
                &mut rec,
                &mut tab,
                &mut w,
                &node.sk,
                &call,
                Some((&node.blockchain.utxoset, &node.blockchain)),
                &mut committed,
                dbg,
            );
            match r {
                Err(()) => return (rec, blocks),
                Ok(Some(tx)) => {
                    if tx.from.iter().any(|s| s.amount > 0) {
                        built.push(tx)
                    }
                }
                Ok(None) => {}
            }
        }
        i += 1;
        if i >= total {
            break;
        }
        // next block
        let ts = b.timestamp + 120_000;
        let mut txs: Vec<Transaction> = vec![];
        let fund = |pk: &SaitoPublicKey, utxo: &UtxoSet| -> Vec<SaitoUTXOSetKey> {
            let low = (latest + 1).saturating_sub(gp);
            sorted_keys(utxo, |k| k[0..33] == *pk && key_bid(k) >= low && key_amt(k) > 10_000)
        };
        for (pk, sk) in [(pk2, sk2), (pk3, sk3)] {
            if rng.chance(2, 3) {
                let f = fund(&pk, &node.blockchain.utxoset);
                if let Some(k) = f.first() {
                    let input = Slip::parse_slip_from_utxokey(k).unwrap();
                    let a = rng.range(1, 5000);
                    let feeamt = if fees { rng.range(0, 20) } else { 0 };
                    let mut outs = vec![(pk, input.amount - a - feeamt)];
                    if rng.chance(3, 4) {
                        outs.push((me, a));
                    } else {
                        outs.push((if pk == pk2 { pk3 } else { pk2 }, a));
                    }
                    if rng.chance(1, 5) {
                        outs[0].1 -= 7;
                        outs.push((me, 7));
                    }
                    txs.push(world::make_tx(&[input], &outs, &sk, ts));
                }
            }
        }
        // inputs that the next block rebroadcasts automatically must not be spent in it as well
        let low_next = (latest + 1).saturating_sub(gp);
        built.retain(|t| t.from.iter().all(|s| s.amount == 0 || s.block_id >= low_next));
        if !fees {
            built.retain(|t| t.total_in == t.total_out);
        }
        if !built.is_empty() && rng.chance(2, 3) {
            let j = rng.below(built.len() as u64) as usize;
            let mut t = built.remove(j);
            t.timestamp = ts;
            t.sign(&node.sk);
            txs.push(t);
        }
        if txs.is_empty() {
            let f = fund(&pk2, &node.blockchain.utxoset);
            if let Some(k) = f.first() {
                let input = Slip::parse_slip_from_utxokey(k).unwrap();
                txs.push(world::make_tx(&[input.clone()], &[(pk2, input.amount - 5), (me, 5)], &sk2, ts));
            }
        }
        let with_gt = i % 2 == 1 || txs.is_empty();
        match make_block(&node, b.hash, ts, txs, with_gt, i).await {
            Ok(nb) => next = Some(nb),
            Err(e) => {
                rec.notes.push(format!("make_block failed: {}", e));
                break;
            }
        }
    }
    (rec, blocks)
}

/// unit level over REAL blocks: a stand-alone wallet wound over the node's chain,
/// with the top blocks unwound and re-wound, transactions built in between
fn case_real_blocks(rng: &mut Rng, dbg: bool, gp: u64, blocks: &[Block]) -> Rec {
    let mut sim = Sim::new("real-blocks", gp, dbg);
    let (pk2, _) = keypair(2);
    let n = blocks.len();
    let cut = if n > 4 { rng.range(2, (n - 1) as u64) as usize } else { n };
    for b in &blocks[0..cut] {
        if sim.dead {
            return sim.rec;
        }
        sim.wind(b.clone(), gp, true);
        if rng.chance(1, 4) && !sim.dead {
            let latest = sim.top();
            let (pays, fee) = pick_request(rng, &sim.w, latest, gp);
            let keys = pays.iter().map(|_| pk2).collect();
            sim.create(CreateCall { keys, payments: pays, fee, latest, gp, single: rng.chance(1, 2) }, true);
        }
    }
    let depth = rng.range(1, 3).min(cut as u64) as usize;
    for _ in 0..depth {
        if sim.dead {
            return sim.rec;
        }
        if sim.top() <= sim.maxseen.saturating_sub(gp) {
            break;
        }
        let b = sim.stack.pop().unwrap();
        sim.unwind(b, gp, true);
    }
    if !sim.dead {
        let latest = sim.top();
        let bal = sim.w.get_available_balance();
        sim.create(CreateCall { keys: vec![pk2], payments: vec![bal / 2 + 1], fee: 0, latest, gp, single: true }, true);
    }
    let resume = sim.stack.len();
    for b in &blocks[resume..] {
        if sim.dead {
            return sim.rec;
        }
        sim.wind(b.clone(), gp, true);
    }
    sim.rec
}

// ------------------------------------------------------------------ main

fn main() {
    let args = Args::parse();
    verif_harness::common::init_log();
    let mut rng = Rng::new(args.seed);
    let thorough = args.tier == "thorough";
    if std::env::var("VERIF_PANIC").is_err() {
        std::panic::set_hook(Box::new(|_| {}));
    }
    let dbg = dbg_mode();
    let rt = tokio::runtime::Builder::new_current_thread().enable_all().build().unwrap();

    let mut recs: Vec<Rec> = vec![];
    for which in 0..8 {
        recs.push(case_scripted(which, dbg, &rt));
    }
    let n_chain = if thorough { 1300 } else { 220 };
    for i in 0..n_chain {
        let len = match i % 3 {
            0 => rng.range(6, 14),
            1 => rng.range(14, 30),
            _ => rng.range(25, 45),
        } as usize;
        recs.push(case_chain(&mut rng, dbg, len, &rt));
    }
    let n_raw = if thorough { 1300 } else { 220 };
    for i in 0..n_raw {
        let len = if i % 2 == 0 { rng.range(5, 15) } else { rng.range(15, 40) } as usize;
        recs.push(case_raw(&mut rng, dbg, len, &rt));
    }
    let n_node = if thorough { 8 } else { 2 };
    for round in 0..n_node {
        for gp in [3u64, 5, 8] {
            let extra = if thorough { rng.range(0, 6) } else { 0 };
            let mut r2 = rng.fork();
            let (rec, blocks) = rt.block_on(case_node(&mut r2, dbg, gp, extra + round % 2, round % 2 == 1));
            recs.push(rec);
            if blocks.len() > 3 {
                recs.push(case_real_blocks(&mut r2, dbg, gp, &blocks));
            }
        }
    }

    let mut summary = Summary::new("C19");
    summary.notes.push(format!("overflow checks: {}", if dbg { "on (debug)" } else { "off (release)" }));
    let mut coq_cases: Vec<String> = vec![];
    let mut distinct: BTreeSet<String> = BTreeSet::new();
    for (i, rec) in recs.iter().enumerate() {
        let groups: Vec<String> = rec.groups.iter().map(|(ops, _)| gal::list(ops)).collect();
        let obs: Vec<Vec<Vec<u64>>> = rec.groups.iter().map(|(_, r)| r.clone()).collect();
        let input = gal::list(&groups);
        coq_cases.push(format!("({}, {})", input, gal::nlllist(&obs)));
        summary.count("kind", &rec.kind);
        summary.count("gp", &format!("{}", rec.gp));
        summary.count("steps", &format!("{}", (rec.groups.len() / 10) * 10));
        summary.count("creates_ok", &format!("{}", rec.creates_ok.min(5)));
        summary.count("unwinds", &format!("{}", rec.unwinds.min(4)));
        summary.count("snapshots", &format!("{}", rec.snapshots.min(3)));
        summary.count("bound_calls", &format!("{}", rec.bound_calls.min(3)));
        summary.count("bound_send_invalid", &format!("{}", rec.bound_send_invalid));
        for p in &rec.panics {
            summary.count("panic_site", &format!("{}", p));
        }
        if rec.creates_real_input > 0 && rec.winds_changed > 0 {
            if distinct.insert(input.clone()) {
                summary.nontrivial += 1;
            }
        }
        let ops_json: Vec<String> = rec.groups.iter().map(|(ops, _)| jstr(&ops.join(" ;; "))).collect();
        let desc = format!(
            "{{\"case\":{},\"kind\":{},\"gp\":{},\"debug\":{},\"ops\":[{}]}}",
            i,
            jstr(&rec.kind),
            rec.gp,
            dbg,
            ops_json.join(",")
        );
        for f in &rec.failures {
            summary.oracle_failure(i, f, &desc);
        }
        for (id, what) in &rec.known {
            summary.known_hit(id, i, what);
            summary.count("known", id);
        }
        for n in &rec.notes {
            summary.notes.push(format!("case {}: {}", i, n));
        }
        if (i < 4 || rec.kind == "node") && summary.samples.len() < 6 && desc.len() < 20_000 {
            summary.samples.push(desc.clone());
        }
        summary.case_descs.push(desc);
    }
    summary.evaluations = recs.len() as u64;
    let header = format!(
        "From Saito Require Import Base Wallet.\n\
         Local Notation K := mkK.\nLocal Notation S := mkSlip.\nLocal Notation T := mkTx.\nLocal Notation B := mkB.\n\
         Definition check (c : list (list op) * list (list (list N))) : bool :=\n\
         eqb_lllN (trace {} (init 1) (fst c)) (snd c).",
        gal::boolean(dbg)
    );
    let files = gal::write_shards(
        &format!("{}/cases", args.out),
        "C19",
        &header,
        "list (list op) * list (list (list N))",
        &coq_cases,
        args.shards,
    )
    .unwrap();
    summary.case_files = files;
    summary.write(&args.out);
}
