//! scratch probe for C02/C13 (not registered): prints what the real node does
use std::panic::AssertUnwindSafe;

use saito_core::core::consensus::block::Block;
use saito_core::core::consensus::slip::{Slip, SlipType};
use saito_core::core::consensus::transaction::{Transaction, TransactionType};
use saito_core::core::defs::{SaitoPrivateKey, SaitoPublicKey};
use verif_harness::chainsim::futures_catch;
use verif_harness::world::*;

fn supply(node: &Node) -> (u128, u128, usize) {
    let bc = &node.blockchain;
    let tip = bc.get_latest_block().unwrap();
    let gp = node.params.genesis_period;
    let mut inw: u128 = 0;
    let mut all: u128 = 0;
    for (k, v) in bc.utxoset.iter() {
        if !*v {
            continue;
        }
        let s = Slip::parse_slip_from_utxokey(k).unwrap();
        if s.slip_type == SlipType::Bound {
            continue;
        }
        all += s.amount as u128;
        if s.block_id >= tip.id.saturating_sub(gp) {
            inw += s.amount as u128;
        }
    }
    let r = tip.treasury as u128 + tip.graveyard as u128 + tip.previous_block_unpaid as u128 + tip.total_fees as u128;
    (inw + r, all + r, bc.utxoset.len())
}

fn hdr(b: &Block) -> String {
    format!(
        "id {} T {} G {} unpaid {} F {} (new {} atr {} cum {}) pay r{} m{} t{} g{} a{} avgF {} avgfpb {} fpb {} avgnolan {} diff {} rbslips {} types {:?}",
        b.id, b.treasury, b.graveyard, b.previous_block_unpaid, b.total_fees, b.total_fees_new, b.total_fees_atr, b.total_fees_cumulative,
        b.total_payout_routing, b.total_payout_mining, b.total_payout_treasury, b.total_payout_graveyard, b.total_payout_atr,
        b.avg_total_fees, b.avg_fee_per_byte, b.fee_per_byte, b.avg_nolan_rebroadcast_per_block, b.difficulty, b.total_rebroadcast_slips,
        b.transactions.iter().map(|t| t.transaction_type as u8).collect::<Vec<_>>()
    )
}

fn raw_tx(ty: TransactionType, from: Vec<Slip>, to: Vec<Slip>, sk: &SaitoPrivateKey, ts: u64) -> Transaction {
    let mut tx = Transaction::default();
    tx.transaction_type = ty;
    tx.timestamp = ts;
    for mut s in from {
        s.generate_utxoset_key();
        tx.add_from_slip(s);
    }
    for s in to {
        tx.add_to_slip(s);
    }
    tx.sign(sk);
    tx
}
fn slip_out(pk: SaitoPublicKey, amount: u64, ty: SlipType) -> Slip {
    let mut o = Slip::default();
    o.public_key = pk;
    o.amount = amount;
    o.slip_type = ty;
    o
}

#[tokio::main(flavor = "current_thread")]
async fn main() {
    verif_harness::common::init_log();
    let which = std::env::args().nth(1).unwrap_or("linear".to_string());
    let feelevel: u64 = std::env::args().nth(3).map(|s| s.parse().unwrap()).unwrap_or(0);
    let gp: u64 = std::env::args().nth(2).map(|s| s.parse().unwrap()).unwrap_or(3);
    let params = Params { genesis_period: gp, ..Params::default() };
    let mut node = Node::new(&params, 1);
    let (pk2, sk2) = keypair(2);
    let (pk3, _sk3) = keypair(3);
    let iss: Vec<(SaitoPublicKey, u64)> = if which == "mult" {
        vec![(node.pk, 3_000_000), (pk2, 60_000), (pk3, 5)]
    } else {
        vec![(node.pk, 1_000_000), (node.pk, 500_000), (pk2, 700), (pk2, 90_000), (pk3, 5), (pk2, 333_000)]
    };
    let g = make_genesis(
        &node,
        1000,
        &iss,
    )
    .await
    .unwrap();
    println!("genesis {:?}", node.add_block(g.clone()).await);
    println!("{} supply {:?}", hdr(&g), supply(&node));
    let mut parent = g.clone();
    let mut spend = outputs_of(&g, 0);
    let nblocks = if which == "mult" { 40u64 } else { 16u64 };
    for i in 0..nblocks {
        let ts = parent.timestamp + 120_000;
        let mut txs = vec![];
        let fee = match which.as_str() {
            "bigfee" => 50_000,
            _ => if feelevel > 0 { feelevel } else { 10 + i * 3 },
        };
        if spend[0].amount > fee {
            txs.push(make_tx(&spend[0..1], &[(node.pk, spend[0].amount - fee)], &node.sk, ts));
        }
        if which == "samespend" && parent.id == gp + 1 {
            // the block being built (id gp+2) rebroadcasts genesis outputs; spend one of them in it
            let s = g.transactions[3].to[0].clone();
            txs.push(make_tx(&[s.clone()], &[(pk2, s.amount)], &sk2, ts));
        }
        if which == "expired" && parent.id == gp + 3 {
            // genesis output of pk2 (700): rebroadcast or dust in block gp+2; try the original now
            let s = g.transactions[2].to[0].clone();
            txs.push(make_tx(&[s.clone()], &[(pk2, s.amount)], &sk2, ts));
        }
        if which == "nft" && parent.id == 1 {
            let s = g.transactions[5].to[0].clone();
            let mut uuid = [0u8; 33];
            uuid[0..8].copy_from_slice(&s.block_id.to_be_bytes());
            uuid[8..16].copy_from_slice(&s.tx_ordinal.to_be_bytes());
            uuid[16] = s.slip_index;
            let tx = raw_tx(
                TransactionType::Bound,
                vec![s.clone()],
                vec![
                    slip_out(pk2, 1, SlipType::Bound),
                    slip_out(pk2, 300_000, SlipType::Normal),
                    slip_out(uuid, 0, SlipType::Bound),
                    slip_out(pk2, 33_000, SlipType::Normal),
                ],
                &sk2,
                ts,
            );
            txs.push(tx);
        }
        let with_gt = i % 2 == 0;
        let b = futures_catch(AssertUnwindSafe(make_block(&node, parent.hash, ts, txs, with_gt, i))).await;
        let b = match b {
            Ok(Ok(b)) => b,
            Ok(Err(e)) => {
                println!("make_block failed: {}", e);
                break;
            }
            Err(p) => {
                println!("make_block PANIC: {}", p);
                break;
            }
        };
        let mut b = b;
        if which == "idjump" && b.id == 4 {
            b.id = 5;
            b.merkle_root = [0; 32];
            b.generate().unwrap();
            resign(&mut b, &node.sk);
        }
        if which == "nofeetx" && b.id == 6 {
            let idx = b.transactions.iter().position(|t| t.transaction_type == TransactionType::Fee).unwrap();
            b.transactions.remove(idx);
            b.merkle_root = [0; 32];
            b.generate().unwrap();
            resign(&mut b, &node.sk);
        }
        if (which == "stakemint" || which == "stakesteal") && b.id == 3 {
            let idx = b.transactions.len();
            let tx = if which == "stakemint" {
                raw_tx(TransactionType::BlockStake, vec![], vec![slip_out(pk3, 1u64 << 63, SlipType::Normal), slip_out(pk3, 1u64 << 63, SlipType::Normal)], &sk2, ts)
            } else {
                let s = g.transactions[1].to[0].clone(); // node's 500_000
                raw_tx(TransactionType::BlockStake, vec![s.clone()], vec![slip_out(pk3, s.amount, SlipType::Normal)], &sk2, ts)
            };
            b.transactions.insert(idx, tx);
            b.merkle_root = [0; 32];
            b.generate().unwrap();
            resign(&mut b, &node.sk);
        }
        let r = futures_catch(AssertUnwindSafe(node.add_block(b.clone()))).await;
        println!("{} -> {:?}", hdr(&b), r);
        if r != Ok(AddClass::OnChain) {
            break;
        }
        println!("    supply {:?}", supply(&node));
        for t in &b.transactions {
            if t.transaction_type == TransactionType::ATR || t.transaction_type == TransactionType::Fee {
                println!(
                    "    {:?} from {:?} to {:?}",
                    t.transaction_type,
                    t.from.iter().map(|s| (s.amount, s.block_id, s.tx_ordinal, s.slip_index, s.slip_type as u8)).collect::<Vec<_>>(),
                    t.to.iter().map(|s| (s.amount, s.block_id, s.tx_ordinal, s.slip_index, s.slip_type as u8)).collect::<Vec<_>>()
                );
            }
        }
        if let Some(idx) = b.transactions.iter().position(|t| t.transaction_type as u8 == 0 && t.from[0].public_key == node.pk) {
            spend = outputs_of(&b, idx);
        }
        parent = b;
    }
    // list utxo
    let mut v: Vec<_> = node
        .blockchain
        .utxoset
        .iter()
        .map(|(k, f)| {
            let s = Slip::parse_slip_from_utxokey(k).unwrap();
            (s.block_id, s.tx_ordinal, s.slip_index, s.amount, s.slip_type as u8, *f)
        })
        .collect();
    v.sort();
    println!("utxo at end (tip {}): {:?}", node.blockchain.get_latest_block_id(), v);
}
