use saito_core::core::consensus::block::{Block, BlockType};
use verif_harness::world::*;
#[tokio::main(flavor = "current_thread")]
async fn main() {
    let params = Params { genesis_period: 20, ..Params::default() };
    let mut node = Node::new(&params, 1);
    let iss: Vec<_> = (0..4u64).map(|k| (node.pk, 1_000_000 + k * 1000)).collect();
    let g = make_genesis(&node, 1000, &iss).await.unwrap();
    node.add_block(g.clone()).await;
    let s = g.transactions[2].to[0].clone();
    println!("genesis slip: block_id {} tx_ordinal {} idx {}", s.block_id, s.tx_ordinal, s.slip_index);
    let tx = make_tx(&[s.clone()], &[(node.pk, s.amount)], &node.sk, 200_000);
    let b = make_block(&node, g.hash, 200_000, vec![tx], true, 1).await.unwrap();
    let i = b.transactions.iter().position(|t| t.transaction_type as u8 == 0).unwrap();
    let f = &b.transactions[i].from[0];
    println!("in block: from block_id {} tx_ordinal {} key {:?}", f.block_id, f.tx_ordinal, &f.utxoset_key[33..50]);
    let bytes = b.serialize_for_net(BlockType::Full);
    let mut d = Block::deserialize_from_net(&bytes).unwrap();
    let f2 = &d.transactions[i].from[0];
    println!("decoded: from block_id {} tx_ordinal {}", f2.block_id, f2.tx_ordinal);
    d.generate().unwrap();
    let f3 = &d.transactions[i].from[0];
    println!("decoded+generate: from block_id {} tx_ordinal {} key {:?}", f3.block_id, f3.tx_ordinal, &f3.utxoset_key[33..50]);
}
