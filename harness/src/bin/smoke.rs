//! smoke test of world.rs: builds a chain with transfers and golden tickets
use verif_harness::world::*;

#[tokio::main(flavor = "current_thread")]
async fn main() {
    verif_harness::common::init_log();
    let params = Params { genesis_period: 5, ..Params::default() };
    let mut node = Node::new(&params, 1);
    let (pk2, _sk2) = keypair(2);
    let g = make_genesis(&node, 1000, &[(node.pk, 1_000_000), (node.pk, 500_000), (pk2, 700)]).await.unwrap();
    println!("genesis {:?} txs {}", node.add_block(g.clone()).await, g.transactions.len());
    let mut parent = g.clone();
    let mut spend = outputs_of(&g, 0);
    for i in 0..14u64 {
        let ts = parent.timestamp + 120_000;
        let tx = make_tx(&spend[0..1], &[(node.pk, spend[0].amount - 10)], &node.sk, ts);
        let b = make_block(&node, parent.hash, ts, vec![tx], i % 2 == 0, i).await.unwrap();
        let r = node.add_block(b.clone()).await;
        let snap = node.snapshot();
        println!("block {} -> {:?} tip {} txs {} utxo {} types {:?}", b.id, r, snap.tip_id, b.transactions.len(), snap.utxo.len(),
          b.transactions.iter().map(|t| t.transaction_type as u8).collect::<Vec<_>>());
        // find our normal tx output in the block
        let idx = b.transactions.iter().position(|t| t.transaction_type as u8 == 0).unwrap();
        spend = outputs_of(&b, idx);
        parent = b;
    }
}
