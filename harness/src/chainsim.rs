//! Block trees built with the real `Block::create`, delivered in arbitrary
//! orders to a real `Blockchain`; observations for the Coq chain model and the
//! direct oracles of C03 / C04 / C05.
use std::collections::{BTreeMap, BTreeSet};
use std::panic::AssertUnwindSafe;

use saito_core::core::consensus::block::Block;
use saito_core::core::consensus::slip::Slip;
use saito_core::core::defs::SaitoHash;

use crate::gal;
use crate::rng::Rng;
use crate::world::*;

#[derive(Clone, Debug)]
pub struct NodeSpec {
    pub parent: Option<usize>,
    pub gt: bool,
    pub invalid: bool,
    /// timestamp offset from the parent (ms)
    pub dt: u64,
    /// index of the genesis output this block's transfer tries to spend (None = no tx)
    pub spend: Option<usize>,
    /// the transfer spends an output that was already spent on the block's own path:
    /// the block is invalid because a transaction is invalid (not because of its header)
    pub bad_spend: bool,
    /// for header-invalid blocks: how much the claimed burn fee is inflated (0 = by one nolan).
    /// Fork choice reads the claimed burn fee before the block is validated.
    pub bf_boost: u64,
}

#[derive(Clone, Debug)]
pub struct TreeSpec {
    pub gp: u64,
    pub nodes: Vec<NodeSpec>,
    pub n_outputs: usize,
    pub loading_completed: bool,
    /// prune_after_blocks of the node under test
    pub pab: u64,
    /// preferred index j for the "parked then connected" order (block j + 1 delivered before block j)
    pub park_at: Option<usize>,
    /// oracle-only family: just before tree block `.0` is delivered, has_checkpoint is set on the
    /// stored block `.1`; `.2` = the reorganisation is expected to be refused without a trace
    pub checkpoint: Option<(usize, usize, bool)>,
    /// oracle-only family: the delivery node runs with the browser flag (golden-ticket density bypass)
    pub browser: bool,
    /// oracle-only family: the delivered version of this tree block carries a transfer that spends
    /// the same input twice, so Block::generate fails and add_block refuses it before storage
    pub dup_input_at: Option<usize>,
}

pub struct BuiltTree {
    pub spec: TreeSpec,
    /// delivered version of each block (the invalid twin for invalid nodes)
    pub blocks: Vec<Block>,
    /// valid version (what children were built on)
    pub valid_twin: Vec<Block>,
    /// a node is "effectively invalid" if it or an ancestor is invalid
    pub eff_invalid: Vec<bool>,
}

pub const HEARTBEAT: u64 = 100;

thread_local! {
    /// why the builder dropped tree nodes (reason -> count), reported in the summary
    pub static DROP_REASONS: std::cell::RefCell<BTreeMap<String, u64>> = std::cell::RefCell::new(BTreeMap::new());
}
pub fn drop_reason(r: &str) {
    let key: String = r.chars().take(60).collect();
    DROP_REASONS.with(|c| *c.borrow_mut().entry(key).or_insert(0) += 1);
    if std::env::var("VERIF_DEBUG_BUILD").is_ok() {
        eprintln!("builder dropped a node: {}", r);
    }
}

thread_local! {
    /// panics of the real node while adding a block its own producer just built
    pub static BUILDER_PANICS: std::cell::RefCell<Vec<String>> = std::cell::RefCell::new(vec![]);
}

pub fn params(gp: u64, loading_completed: bool) -> Params {
    Params {
        genesis_period: gp,
        heartbeat: HEARTBEAT,
        initial_loading_completed: loading_completed,
        ..Params::default()
    }
}

/// the node used to BUILD blocks: same consensus parameters, but the golden-ticket
/// density check is bypassed (browser flag) and nothing is ever pruned, so that
/// chains whose density fails at some tip can still be extended by the producer.
/// Block::create / Block::validate do not depend on these two settings.
pub fn builder_node(gp: u64) -> Node {
    let mut n = Node::new(&params(gp, false), 1);
    n.cfg.browser = true;
    n.cfg.consensus.prune_after_blocks = 1_000_000;
    n
}

fn ancestors(nodes: &[NodeSpec], i: usize) -> Vec<usize> {
    let mut v = vec![];
    let mut cur = Some(i);
    while let Some(c) = cur {
        v.push(c);
        cur = nodes[c].parent;
    }
    v.reverse();
    v
}

/// Tries to build node `i` (its parent must be built). Returns (delivered block,
/// valid twin that children are built on, is the delivered block valid when wound on
/// its parent chain). None if the producer cannot build it.
pub async fn build_node(
    spec: &TreeSpec,
    built: &BuiltTree,
    i: usize,
) -> Option<(Block, Block, bool)> {
    let ns = &spec.nodes[i];
    let mut builder = builder_node(spec.gp);
    let cfg = builder.cfg.clone();
    let (valid, delivered_valid, delivered0) = match ns.parent {
        None => {
            let issuance: Vec<_> = (0..spec.n_outputs)
                .map(|k| (builder.pk, 1_000_000 + 1000 * k as u64))
                .collect();
            let g = make_genesis(&builder, 1_000_000, &issuance).await.ok()?;
            (g.clone(), true, g)
        }
        Some(p) => {
            let path = ancestors(&spec.nodes, p);
            let mut spent: BTreeSet<usize> = BTreeSet::new();
            for a in &path {
                let r = futures_catch(AssertUnwindSafe(builder.add_block(built.valid_twin[*a].clone()))).await;
                if r != Ok(AddClass::OnChain) {
                    { drop_reason("ancestor not OnChain on builder"); return None };
                }
                // the builder runs with the browser flag (no golden-ticket density check), which
                // also disables block persistence: persist by hand, the rebroadcast section of
                // generate_consensus_values reads the block leaving the window from disk
                builder.storage.write_block_to_disk(&built.valid_twin[*a]).await;
                if let Some(s) = spec.nodes[*a].spend {
                    if !spec.nodes[*a].bad_spend {
                        spent.insert(s);
                    }
                }
            }
            let parent = &built.valid_twin[p];
            let ts = parent.timestamp + ns.dt;
            let g = &built.valid_twin[path[0]];
            let mk = |s: usize, ts: u64| {
                let slip: Slip = g.transactions[s].to[0].clone();
                if i % 3 == 0 {
                    // two outputs, one of them with amount zero (never enters the spendable set)
                    make_tx(&[slip.clone()], &[(builder.pk, slip.amount), (builder.pk, 0)], &builder.sk, ts)
                } else {
                    make_tx(&[slip.clone()], &[(builder.pk, slip.amount)], &builder.sk, ts)
                }
            };
            let mut good_txs = vec![];
            let mut bad_txs = vec![];
            if let Some(s) = ns.spend {
                if s < spec.n_outputs {
                    if ns.bad_spend {
                        // must be an output already spent on the path
                        if !spent.contains(&s) {
                            { drop_reason("bad_spend output not yet spent"); return None };
                        }
                        bad_txs.push(mk(s, ts));
                    } else if !spent.contains(&s) {
                        good_txs.push(mk(s, ts));
                    }
                }
            }
            let seed = i as u64 * 7919 + 13;
            // every fourth ticket-carrying block moves its transfer inside the golden-ticket
            // transaction itself (a value-carrying transaction of type GoldenTicket)
            // (only while no automatic rebroadcast can pick the same slip: block ids up to genesis_period)
            let value_gt = ns.gt && i % 4 == 1 && parent.id < spec.gp && !good_txs.is_empty() && bad_txs.is_empty();
            let b = if value_gt {
                make_block_value_gt(&builder, parent.hash, ts, &good_txs[0], seed).await.map_err(|e| drop_reason(&format!("value gt block: {}", e))).ok()?
            } else {
                make_block(&builder, parent.hash, ts, good_txs.clone(), ns.gt, seed).await.map_err(|e| drop_reason(&format!("make_block: {}", e))).ok()?
            };
            let ok = match futures_catch(AssertUnwindSafe(b.validate(
                &builder.blockchain,
                &builder.blockchain.utxoset,
                &cfg,
                &builder.storage,
                true,
            )))
            .await
            {
                Ok(v) => v,
                Err(msg) => {
                    BUILDER_PANICS.with(|c| c.borrow_mut().push(msg));
                    { drop_reason("builder validate panicked"); return None };
                }
            };
            if !ok {
                // the producer built a block its own validation rejects (e.g. no transactions): not usable
                { drop_reason("producer block rejected by own validation"); return None };
            }
            if !bad_txs.is_empty() {
                // delivered version carries the invalid transfer; children build on the clean twin
                let mut all = good_txs.clone();
                all.extend(bad_txs);
                let d = make_block(&builder, parent.hash, ts, all, ns.gt, seed).await.ok()?;
                let dv = futures_catch(AssertUnwindSafe(d.validate(
                    &builder.blockchain,
                    &builder.blockchain.utxoset,
                    &cfg,
                    &builder.storage,
                    true,
                )))
                .await
                .unwrap_or(true);
                if dv {
                    { drop_reason("bad twin validates"); return None }; // not actually invalid: drop
                }
                (b, false, d)
            } else {
                (b.clone(), true, b)
            }
        }
    };
    // delivered version
    let mut delivered = delivered0;
    let mut is_valid = delivered_valid;
    if let Some(p) = ns.parent {
        if built.blocks[p].hash != built.valid_twin[p].hash {
            // parent's delivered version is an invalid twin: relink
            delivered.previous_block_hash = built.blocks[p].hash;
            resign(&mut delivered, &builder.sk);
        }
    }
    if spec.dup_input_at == Some(i) {
        // same input twice in one transfer: Block::generate reports a double spend
        let mut done = false;
        for tx in delivered.transactions.iter_mut() {
            if !done && tx.transaction_type as u8 == 0 && !tx.from.is_empty() {
                let sl = tx.from[0].clone();
                tx.from.push(sl);
                done = true;
            }
        }
        if !done {
            drop_reason("no transfer to duplicate an input in");
            return None;
        }
        // as received from the wire: the per-block table of spent slips is not built yet
        delivered.slips_spent_this_block.clear();
        delivered.created_hashmap_of_slips_spent_this_block = false;
        is_valid = false;
    }
    if ns.invalid {
        delivered.burnfee += 1 + ns.bf_boost;
        resign(&mut delivered, &builder.sk);
        is_valid = false;
    }
    Some((delivered, valid, is_valid))
}

/// a block whose golden-ticket transaction also carries the value slips of `transfer`
pub async fn make_block_value_gt(
    node: &Node,
    parent_hash: SaitoHash,
    timestamp: u64,
    transfer: &saito_core::core::consensus::transaction::Transaction,
    gt_seed: u64,
) -> Result<Block, String> {
    use saito_core::core::consensus::transaction::{Transaction, TransactionType};
    let parent = node
        .blockchain
        .get_block(&parent_hash)
        .ok_or_else(|| "parent not found for golden ticket".to_string())?;
    let base = golden_ticket_tx(parent_hash, parent.difficulty, &node.pk, &node.sk, gt_seed).await;
    let mut gttx = Transaction::default();
    gttx.transaction_type = TransactionType::GoldenTicket;
    gttx.timestamp = base.timestamp;
    gttx.data = base.data.clone();
    for sl in &transfer.from {
        let mut sl = sl.clone();
        sl.generate_utxoset_key();
        gttx.add_from_slip(sl);
    }
    for o in &transfer.to {
        let mut o2 = Slip::default();
        o2.public_key = o.public_key;
        o2.amount = o.amount;
        o2.slip_type = o.slip_type;
        gttx.add_to_slip(o2);
    }
    gttx.sign(&node.sk);
    gttx.generate(&node.pk, 0, 0);
    let mut map = fixed_tx_map();
    let mut block = Block::create(
        &mut map,
        parent_hash,
        &node.blockchain,
        timestamp,
        &node.pk,
        &node.sk,
        Some(gttx),
        &node.cfg,
        &node.storage,
    )
    .await
    .map_err(|e| format!("Block::create failed: {:?}", e))?;
    block.generate().map_err(|e| format!("generate failed: {:?}", e))?;
    block.sign(&node.sk);
    block.generate().map_err(|e| format!("generate failed: {:?}", e))?;
    Ok(block)
}

/// spends recorded on the path must use the spec of the nodes actually built:
/// a node whose spend was skipped (already spent on its path) carries no tx.
pub async fn build_tree(spec: TreeSpec) -> BuiltTree {
    let mut built = BuiltTree {
        spec: spec.clone(),
        blocks: vec![],
        valid_twin: vec![],
        eff_invalid: vec![],
    };
    let mut kept_nodes: Vec<NodeSpec> = vec![];
    let mut remap: Vec<Option<usize>> = vec![];
    for i in 0..spec.nodes.len() {
        let mut ns = spec.nodes[i].clone();
        // remap parent to kept index
        if let Some(p) = ns.parent {
            match remap[p] {
                Some(np) => ns.parent = Some(np),
                None => {
                    remap.push(None);
                    continue;
                }
            }
        }
        let mut cur_spec = built.spec.clone();
        cur_spec.nodes = kept_nodes.clone();
        cur_spec.nodes.push(ns.clone());
        let idx = cur_spec.nodes.len() - 1;
        match build_node(&cur_spec, &built, idx).await {
            Some((delivered, _, _)) if built.blocks.iter().any(|b| b.hash == delivered.hash) => {
                // identical to an existing block (same parent, time and content)
                remap.push(None);
            }
            Some((delivered, valid, is_valid)) => {
                let has_tx = delivered
                    .transactions
                    .iter()
                    .any(|t| t.transaction_type as u8 == 0 && !t.from.is_empty());
                if !has_tx {
                    ns.spend = None;
                    ns.bad_spend = false;
                }
                let parent_inv = ns.parent.map(|p| built.eff_invalid[p]).unwrap_or(false);
                built.eff_invalid.push(parent_inv || !is_valid);
                built.blocks.push(delivered);
                built.valid_twin.push(valid);
                kept_nodes.push(ns);
                remap.push(Some(idx));
            }
            None => remap.push(None),
        }
    }
    built.spec.nodes = kept_nodes;
    built
}

// ------------------------------------------------------------------ observation

pub struct Interned {
    pub hash_idx: BTreeMap<SaitoHash, u64>,
    pub keys: Interner,
}

#[derive(Clone, Debug, PartialEq)]
pub struct Obs {
    pub code: u64,
    pub snap: Option<ChainSnapshot>,
    pub wallet: (u64, u64),
    pub panic_msg: Option<String>,
}

pub struct RunOut {
    pub obs: Vec<Obs>,
    pub rows: Vec<Vec<Vec<u64>>>,
    /// blocks actually delivered (orphans are skipped unless allowed)
    pub delivered: Vec<usize>,
    /// index into `delivered` of the first block that arrived before its parent
    pub first_orphan: Option<usize>,
    /// index into `delivered` of the first delivery in one of the purge-regime finding classes
    /// (the hypotheses `conn` / `no_late` of proofs/PurgeProofs.v fail), with the finding id
    pub first_purge_known: Option<(usize, &'static str)>,
    /// first delivery of a block not connected to the stored chain (orphan, or descendant of
    /// one) that actually disturbed tip / index / ledger / flags of other blocks
    pub first_orphan_effect: Option<usize>,
    /// per delivery: total number of block ring entries minus number of stored blocks
    pub ring_surplus: Vec<i64>,
    /// per delivery: the wallet's slips as sorted (utxo key, spent) list
    pub wallet_slips: Vec<Vec<(saito_core::core::defs::SaitoUTXOSetKey, bool)>>,
    /// deliveries skipped because the block's parent was not stored (orphans not allowed)
    pub skipped: usize,
}

pub fn intern_tree(t: &BuiltTree) -> Interned {
    let mut hash_idx = BTreeMap::new();
    for (i, b) in t.blocks.iter().enumerate() {
        hash_idx.insert(b.hash, i as u64 + 1);
    }
    let mut keys = Interner::default();
    for b in &t.blocks {
        for tx in &b.transactions {
            for s in tx.from.iter().chain(tx.to.iter()) {
                if s.amount > 0 {
                    keys.get(&s.utxoset_key);
                }
            }
        }
    }
    Interned { hash_idx, keys }
}

pub fn hidx(int: &Interned, h: &SaitoHash) -> u64 {
    if *h == [0u8; 32] {
        0
    } else {
        *int.hash_idx.get(h).unwrap_or(&9999)
    }
}

/// Gallina literal of the block list: (hash, prev, id, burnfee, has_gt, valid, txs)
pub fn gallina_blocks(t: &BuiltTree, int: &mut Interned) -> String {
    let mut items = vec![];
    for (i, b) in t.blocks.iter().enumerate() {
        let mut txs = vec![];
        for tx in &b.transactions {
            let ins: Vec<u64> = tx
                .from
                .iter()
                .filter(|s| s.amount > 0)
                .map(|s| int.keys.get(&s.utxoset_key))
                .collect();
            let outs: Vec<u64> = tx
                .to
                .iter()
                .filter(|s| s.amount > 0)
                .map(|s| int.keys.get(&s.utxoset_key))
                .collect();
            txs.push(format!("({}, {})", gal::nlist(&ins), gal::nlist(&outs)));
        }
        items.push(format!(
            "mkB {} {} {} {} {} {} {}",
            i + 1,
            hidx(int, &b.previous_block_hash),
            b.id,
            b.burnfee,
            gal::boolean(b.has_golden_ticket),
            gal::boolean(!t.eff_invalid[i]),
            gal::list(&txs)
        ));
    }
    gal::list(&items)
}

pub fn snapshot_rows(int: &mut Interned, code: u64, steps: u64, s: &ChainSnapshot) -> Vec<Vec<u64>> {
    let mut rows = vec![
        vec![code, steps],
        vec![s.tip_id, hidx(int, &s.tip_hash), s.last_block_id, hidx(int, &s.last_block_hash)],
    ];
    let mut lc = vec![];
    for (id, h) in &s.lc_index {
        lc.push(*id);
        lc.push(hidx(int, h));
    }
    rows.push(lc);
    let mut bl: Vec<(u64, u64, u64, u64)> = s
        .blocks
        .iter()
        .zip(s.in_ring.iter())
        .map(|((h, id, lc), r)| (hidx(int, h), *id, *lc as u64, *r as u64))
        .collect();
    bl.sort();
    rows.push(bl.iter().flat_map(|(h, id, lc, r)| vec![*h, *id, *lc, *r]).collect());
    let mut ut: Vec<u64> = s
        .utxo
        .iter()
        .map(|(k, v)| int.keys.get(k) * 2 + (*v as u64))
        .collect();
    ut.sort();
    rows.push(ut);
    rows
}

/// Delivers `order` (indices into the tree, duplicates allowed) to a fresh node.
pub async fn deliver(t: &BuiltTree, int: &mut Interned, order: &[usize], allow_orphans: bool) -> RunOut {
    deliver_with(t, int, order, allow_orphans, None).await
}

/// as `deliver`; `parked` names one tree block that may be delivered before its parent even if
/// orphan deliveries are otherwise skipped
pub async fn deliver_with(t: &BuiltTree, int: &mut Interned, order: &[usize], allow_orphans: bool, parked: Option<usize>) -> RunOut {
    let mut np = params(t.spec.gp, t.spec.loading_completed);
    np.prune_after_blocks = t.spec.pab;
    let mut node = Node::new(&np, 1);
    node.cfg.browser = t.spec.browser;
    let mut out = RunOut { obs: vec![], rows: vec![], delivered: vec![], first_orphan: None, first_purge_known: None, first_orphan_effect: None, ring_surplus: vec![], wallet_slips: vec![], skipped: 0 };
    saito_core::core::consensus::blockchain::VERIF_WIND_STEPS.with(|c| c.set((0, u64::MAX)));
    for &i in order {
        let block = t.blocks[i].clone();
        // "orphan": arrives while its parent is not stored. The very first block
        // must be the root of the tree (the first-block rule accepts anything).
        let parent_known = if node.blockchain.blocks.is_empty() && out.delivered.is_empty() {
            i == 0
        } else {
            node.blockchain.blocks.contains_key(&block.previous_block_hash)
        };
        // with initial_loading_completed a block whose (non-zero) parent is unknown is answered
        // Retry / Invalid and nothing is stored: such deliveries are part of the modelled behaviour
        let inert_orphan = !parent_known
            && t.spec.loading_completed
            && !node.blockchain.blocks.is_empty()
            && block.previous_block_hash != [0u8; 32];
        if !parent_known && !inert_orphan {
            if !allow_orphans && parked != Some(i) {
                out.skipped += 1;
                continue;
            }
            if out.first_orphan.is_none() {
                out.first_orphan = Some(out.delivered.len());
            }
        }
        let disconnected = (!parent_known && !inert_orphan)
            || (parent_known
                && !node.blockchain.blocks.is_empty()
                && purge_known_class(&node, t, i) == Some("purge-disconnected-fork"));
        let before_snap = if disconnected && out.first_orphan_effect.is_none() {
            std::panic::catch_unwind(AssertUnwindSafe(|| node.snapshot())).ok()
        } else {
            None
        };
        if parent_known && out.first_purge_known.is_none() && !node.blockchain.blocks.is_empty() {
            if let Some(id) = purge_known_class(&node, t, i) {
                out.first_purge_known = Some((out.delivered.len(), id));
            }
        }
        if let Some((trig, target, _)) = t.spec.checkpoint {
            if i == trig {
                if let Some(bk) = node.blockchain.blocks.get_mut(&t.blocks[target].hash) {
                    bk.has_checkpoint = true;
                }
            }
        }
        out.delivered.push(i);
        let fut = AssertUnwindSafe(node.add_block(block));
        let res = futures_catch(fut).await;
        match res {
            Ok(class) => {
                let snap = match std::panic::catch_unwind(AssertUnwindSafe(|| node.snapshot())) {
                    Ok(s) => s,
                    Err(e) => {
                        let msg = if let Some(s) = e.downcast_ref::<String>() {
                            s.clone()
                        } else if let Some(s) = e.downcast_ref::<&str>() {
                            s.to_string()
                        } else {
                            "?".to_string()
                        };
                        out.ring_surplus.push(0);
                        out.wallet_slips.push(vec![]);
                        if before_snap.is_some() {
                            out.first_orphan_effect = Some(out.delivered.len() - 1);
                        }
                        out.rows.push(vec![vec![8]]);
                        out.obs.push(Obs {
                            code: 8,
                            snap: None,
                            wallet: (0, 0),
                            panic_msg: Some(format!("reading tip/index after add_block panicked: {}", msg)),
                        });
                        break;
                    }
                };
                let wallet = {
                    let w = node.wallet_lock.read().await;
                    (w.get_available_balance(), w.get_unspent_slip_count())
                };
                let steps = saito_core::core::consensus::blockchain::VERIF_WIND_STEPS.with(|c| c.get().0);
                if let Ok(a) = std::env::var("VERIF_TRACE_AMOUNT") {
                    let amt: u64 = a.parse().unwrap_or(0);
                    let ks: Vec<String> = snap
                        .utxo
                        .iter()
                        .map(|(k, _)| Slip::parse_slip_from_utxokey(k).unwrap())
                        .filter(|s| s.amount == amt)
                        .map(|s| format!("{}:{}:{}", s.block_id, s.tx_ordinal, s.slip_index))
                        .collect();
                    eprintln!("TRACE after block {} ({:?}): amount {} at {:?}", i + 1, class, amt, ks);
                }
                if let Some(bs) = &before_snap {
                    let others_changed = bs.blocks.iter().any(|x| !snap.blocks.contains(x));
                    // a block that is not connected to the stored chain is "parked" only if it is answered
                    // OffChain and nothing but the block store changed; everything else (a reorganisation
                    // attempt onto a disconnected chain, even a failed one) counts as an effect of the finding
                    // a not-connected block at exactly the tip height can neither clear index entries (the loop
                    // runs over block_id + 1 ..= latest) nor be adopted (latest >= its id): any change there is
                    // NOT explained by the finding and stays a violation
                    let at_tip_height = t.blocks[i].id == bs.tip_id && bs.tip_id != 0;
                    if !at_tip_height && (class.code() != 2 || bs.tip_hash != snap.tip_hash || bs.lc_index != snap.lc_index || bs.utxo != snap.utxo || others_changed) {
                        out.first_orphan_effect = Some(out.delivered.len() - 1);
                    }
                }
                let ring_total: usize = node.blockchain.blockring.ring.iter().map(|it| it.block_hashes.len()).sum();
                out.ring_surplus.push(ring_total as i64 - snap.blocks.len() as i64);
                {
                    let w = node.wallet_lock.read().await;
                    let mut ws: Vec<(saito_core::core::defs::SaitoUTXOSetKey, bool)> = w.slips.iter().map(|(k, v)| (*k, v.spent)).collect();
                    ws.sort();
                    out.wallet_slips.push(ws);
                }
                out.rows.push(snapshot_rows(int, class.code(), steps, &snap));
                out.obs.push(Obs { code: class.code(), snap: Some(snap), wallet, panic_msg: None });
            }
            Err(msg) => {
                out.ring_surplus.push(0);
                out.wallet_slips.push(vec![]);
                if before_snap.is_some() {
                    out.first_orphan_effect = Some(out.delivered.len() - 1);
                }
                out.rows.push(vec![vec![9]]);
                out.obs.push(Obs { code: 9, snap: None, wallet: (0, 0), panic_msg: Some(msg) });
                break;
            }
        }
    }
    out
}

/// The two delivery classes of the purge regime in which the chain theorems do not hold
/// (hypotheses `conn` and `no_late` of coq/proofs/PurgeProofs.v), decided on the node's state
/// before the delivery of tree block `i` (whose parent is stored):
///  * "purge-disconnected-fork": walking back from the parent through stored off-chain blocks
///    reaches a block whose parent is no longer stored (the fork point was purged);
///  * "purge-late-failure": the candidate chain contains an invalid block, and before it a
///    block above both last_block_id and 2 * genesis_period would be wound.
pub fn purge_known_class(node: &Node, t: &BuiltTree, i: usize) -> Option<&'static str> {
    let bc = &node.blockchain;
    let mut path: Vec<SaitoHash> = vec![];
    let mut h = t.blocks[i].previous_block_hash;
    loop {
        match bc.blocks.get(&h) {
            Some(bk) => {
                if bk.in_longest_chain {
                    break;
                }
                path.push(h);
                h = bk.previous_block_hash;
            }
            None => return Some("purge-disconnected-fork"),
        }
    }
    // candidate, deepest first
    let mut cand: Vec<usize> = vec![];
    for ph in path.iter().rev() {
        if let Some(j) = t.blocks.iter().position(|b| b.hash == *ph) {
            cand.push(j);
        }
    }
    cand.push(i);
    if cand.iter().all(|j| !t.eff_invalid[*j]) {
        return None;
    }
    for j in cand {
        if t.eff_invalid[j] {
            break;
        }
        let id = t.blocks[j].id;
        if id > bc.last_block_id && id > 2 * t.spec.gp {
            return Some("purge-late-failure");
        }
    }
    None
}

/// polls a future to completion catching panics (the harness runs single-threaded)
pub async fn futures_catch<F, T>(fut: AssertUnwindSafe<F>) -> Result<T, String>
where
    F: std::future::Future<Output = T>,
{
    use std::future::Future;
    use std::pin::Pin;
    use std::task::{Context, Poll};
    struct Catch<F>(Pin<Box<F>>);
    impl<F: Future> Future for Catch<F> {
        type Output = Result<F::Output, String>;
        fn poll(mut self: Pin<&mut Self>, cx: &mut Context<'_>) -> Poll<Self::Output> {
            let inner = &mut self.0;
            match std::panic::catch_unwind(AssertUnwindSafe(|| inner.as_mut().poll(cx))) {
                Ok(Poll::Ready(v)) => Poll::Ready(Ok(v)),
                Ok(Poll::Pending) => Poll::Pending,
                Err(e) => {
                    let msg = if let Some(s) = e.downcast_ref::<String>() {
                        s.clone()
                    } else if let Some(s) = e.downcast_ref::<&str>() {
                        s.to_string()
                    } else {
                        "?".to_string()
                    };
                    Poll::Ready(Err(msg))
                }
            }
        }
    }
    Catch(Box::pin(fut.0)).await
}

// ------------------------------------------------------------------ oracles

/// the chain of stored blocks from the tip down to the first block whose
/// parent is not stored (tip first)
fn chain_from_tip(s: &ChainSnapshot, t: &BuiltTree) -> Vec<usize> {
    let by_hash: BTreeMap<SaitoHash, usize> =
        t.blocks.iter().enumerate().map(|(i, b)| (b.hash, i)).collect();
    let stored: BTreeSet<SaitoHash> = s.blocks.iter().map(|b| b.0).collect();
    let mut v = vec![];
    let mut cur = s.tip_hash;
    while cur != [0u8; 32] && stored.contains(&cur) {
        let i = by_hash[&cur];
        v.push(i);
        cur = t.blocks[i].previous_block_hash;
    }
    v
}

/// C03: the ledger, the by-height index, the on-chain flags and the tip all
/// describe the chain of ancestors of the tip. Returns descriptions of failures.
pub fn oracle_c03(t: &BuiltTree, s: &ChainSnapshot) -> Vec<String> {
    let mut f = vec![];
    let chain = chain_from_tip(s, t); // tip first
    if s.tip_id != 0 || s.tip_hash != [0u8; 32] {
        if chain.is_empty() {
            f.push(format!("tip {} is not a stored block", s.tip_id));
            return f;
        }
        if t.blocks[chain[0]].id != s.tip_id {
            f.push("tip id does not match tip hash".to_string());
        }
    }
    // replay
    let mut utxo: BTreeSet<[u8; 59]> = BTreeSet::new();
    for &i in chain.iter().rev() {
        for tx in &t.blocks[i].transactions {
            for sl in &tx.from {
                if sl.amount > 0 {
                    utxo.remove(&sl.utxoset_key);
                }
            }
            for sl in &tx.to {
                if sl.amount > 0 {
                    utxo.insert(sl.utxoset_key);
                }
            }
        }
    }
    let real: BTreeSet<[u8; 59]> = s.utxo.iter().filter(|(_, v)| *v).map(|(k, _)| *k).collect();
    if real != utxo {
        let extra = real.difference(&utxo).count();
        let missing = utxo.difference(&real).count();
        let show = |k: &[u8; 59]| {
            let s = Slip::parse_slip_from_utxokey(k).unwrap();
            format!("{}:{}:{} amount {}", s.block_id, s.tx_ordinal, s.slip_index, s.amount)
        };
        f.push(format!(
            "spendable set differs from the replay of the longest chain: {} extra, {} missing (extra: {:?}; missing: {:?})",
            extra,
            missing,
            real.difference(&utxo).take(3).map(show).collect::<Vec<_>>(),
            utxo.difference(&real).take(3).map(show).collect::<Vec<_>>()
        ));
    }
    if s.utxo.iter().any(|(_, v)| !*v) {
        f.push("utxo set holds an entry flagged unspendable".to_string());
    }
    // by-height index
    let on_chain: BTreeMap<u64, SaitoHash> =
        chain.iter().map(|&i| (t.blocks[i].id, t.blocks[i].hash)).collect();
    let idx: BTreeMap<u64, SaitoHash> = s.lc_index.iter().cloned().collect();
    if idx != on_chain {
        f.push(format!(
            "longest-chain index (ids {:?}) does not describe the ancestors of the tip (ids {:?})",
            idx.keys().collect::<Vec<_>>(),
            on_chain.keys().collect::<Vec<_>>()
        ));
    }
    // flags
    for (h, id, lc) in &s.blocks {
        let should = on_chain.get(id) == Some(h);
        if *lc != should {
            f.push(format!("block id {} on-chain flag is {} but should be {}", id, lc, should));
        }
    }
    for ((_, id, _), r) in s.blocks.iter().zip(s.in_ring.iter()) {
        if !*r {
            f.push(format!("stored block at height {} has no entry in the block ring", id));
        }
    }
    // purge arithmetic: nothing stored at or below tip - 2gp, the chain window reaches down to
    // tip - 2gp + 1 (or the root), genesis_block_id = tip - gp once the tip is beyond 2gp
    let gp = t.spec.gp;
    if s.tip_id >= 2 * gp + 1 {
        for (_, id, _) in &s.blocks {
            if *id + 2 * gp <= s.tip_id {
                f.push(format!("block at id {} is still stored although the tip is {} (purge horizon {})", id, s.tip_id, s.tip_id - 2 * gp));
            }
        }
        if s.genesis_block_id != s.tip_id - gp {
            f.push(format!("genesis_block_id is {} but tip - genesis_period is {}", s.genesis_block_id, s.tip_id - gp));
        }
    } else if s.genesis_block_id != 0 {
        f.push(format!("genesis_block_id is {} before the tip passed 2 * genesis_period", s.genesis_block_id));
    }
    if let Some(&low) = chain.last() {
        let want = std::cmp::max(t.blocks[0].id, (s.tip_id + 1).saturating_sub(2 * gp));
        if t.blocks[low].id > want {
            f.push(format!("stored chain window ends at id {} but should reach down to id {}", t.blocks[low].id, want));
        }
    }
    if s.tip_id != 0 && (s.last_block_id != s.tip_id || s.last_block_hash != s.tip_hash) {
        f.push(format!(
            "reported last block ({}) differs from the index tip ({})",
            s.last_block_id, s.tip_id
        ));
    }
    f
}

/// C04: a rejected block leaves no trace (compare snapshots and wallet)
pub fn oracle_c04(before: &Obs, after: &Obs) -> Vec<String> {
    let mut f = vec![];
    if let Some(m) = &after.panic_msg {
        if m.contains("VERIF_STEP_LIMIT") {
            f.push(format!("block processing did not terminate within the step bound: {}", m));
        } else {
            f.push(format!("add_block panicked: {}", m));
        }
        return f;
    }
    if after.code == 5 || after.code == 3 || after.code == 4 {
        let (a, b) = (before.snap.as_ref().unwrap(), after.snap.as_ref().unwrap());
        if a.tip_id != b.tip_id || a.tip_hash != b.tip_hash {
            f.push(format!("rejected block moved the tip from {} to {}", a.tip_id, b.tip_id));
        }
        if a.utxo != b.utxo {
            f.push("rejected block changed the spendable set".to_string());
        }
        if a.lc_index != b.lc_index {
            f.push("rejected block changed the longest-chain index".to_string());
        }
        if a.blocks != b.blocks {
            f.push("rejected block changed the stored blocks / on-chain flags".to_string());
        }
        if a.in_ring != b.in_ring {
            f.push("rejected block changed the block ring entries of other stored blocks".to_string());
        }
        if (a.last_block_id, a.last_block_hash, a.last_ts_burnfee, a.genesis_block_id)
            != (b.last_block_id, b.last_block_hash, b.last_ts_burnfee, b.genesis_block_id)
        {
            f.push(format!(
                "rejected block changed the tip bookkeeping (last_block_id / hash / timestamp / burnfee / genesis_block_id): last_block_id {} -> {}, last (timestamp, burnfee) {:?} -> {:?}, genesis_block_id {} -> {}",
                a.last_block_id, b.last_block_id, a.last_ts_burnfee, b.last_ts_burnfee, a.genesis_block_id, b.genesis_block_id
            ));
        }
        if before.wallet != after.wallet {
            f.push(format!(
                "rejected block changed the wallet: {:?} -> {:?}",
                before.wallet, after.wallet
            ));
        }
    }
    f
}

pub fn empty_obs() -> Obs {
    Obs {
        code: 0,
        snap: Some(ChainSnapshot {
            tip_id: 0,
            tip_hash: [0; 32],
            lc_index: vec![],
            blocks: vec![],
            in_ring: vec![],
            utxo: vec![],
            last_block_id: 0,
            last_block_hash: [0; 32],
            genesis_block_id: 0,
            last_ts_burnfee: (0, 0),
        }),
        wallet: (0, 0),
        panic_msg: None,
    }
}

/// golden-ticket density as the code decides it for a chain whose tip is `i`
pub fn gt_ok_at(t: &BuiltTree, stored: &BTreeSet<SaitoHash>, i: usize) -> bool {
    if t.spec.browser {
        return true; // density rule bypassed on browser / spv nodes
    }
    let by_hash: BTreeMap<SaitoHash, usize> =
        t.blocks.iter().enumerate().map(|(k, b)| (b.hash, k)).collect();
    let mut depth = 0u64;
    let mut found = 0u64;
    let mut cur = t.blocks[i].previous_block_hash;
    for _ in 0..5 {
        match by_hash.get(&cur) {
            Some(&k) if stored.contains(&cur) => {
                depth += 1;
                if t.blocks[k].has_golden_ticket {
                    found += 1;
                }
                cur = t.blocks[k].previous_block_hash;
            }
            _ => break,
        }
    }
    let required = 2u64.saturating_sub(6u64.saturating_sub(depth + 1));
    if t.blocks[i].has_golden_ticket {
        found += 1;
    }
    if depth < 4 {
        return true;
    }
    found >= required
}

/// C05: criteria under which the tip may move / must move; monotone height
pub fn oracle_c05(t: &BuiltTree, delivered: usize, before: &Obs, after: &Obs) -> Vec<String> {
    let mut f = vec![];
    let (a, b) = match (before.snap.as_ref(), after.snap.as_ref()) {
        (Some(a), Some(b)) => (a, b),
        _ => return f,
    };
    if b.tip_id < a.tip_id {
        f.push(format!("tip height decreased from {} to {}", a.tip_id, b.tip_id));
    }
    let by_hash: BTreeMap<SaitoHash, usize> =
        t.blocks.iter().enumerate().map(|(k, bl)| (bl.hash, k)).collect();
    let stored_after: BTreeSet<SaitoHash> = b.blocks.iter().map(|x| x.0).collect();
    if b.tip_hash != a.tip_hash {
        // new chain segment: from new tip down to the first block that was on the old chain
        let old_chain: BTreeSet<SaitoHash> = {
            let c = chain_from_tip(a, t);
            c.iter().map(|&i| t.blocks[i].hash).collect()
        };
        let mut seg = vec![];
        let mut cur = b.tip_hash;
        while cur != [0u8; 32] && !old_chain.contains(&cur) {
            match by_hash.get(&cur) {
                Some(&i) => {
                    seg.push(i);
                    cur = t.blocks[i].previous_block_hash;
                }
                None => break,
            }
        }
        let fork = cur;
        let mut old_seg = vec![];
        let mut cur = a.tip_hash;
        while cur != [0u8; 32] && cur != fork {
            match by_hash.get(&cur) {
                Some(&i) => {
                    old_seg.push(i);
                    cur = t.blocks[i].previous_block_hash;
                }
                None => break,
            }
        }
        if a.tip_id != 0 {
            if seg.len() <= old_seg.len() {
                f.push(format!(
                    "tip moved to a segment of {} blocks that is not longer than the old one ({})",
                    seg.len(),
                    old_seg.len()
                ));
            }
            let nbf: u128 = seg.iter().map(|&i| t.blocks[i].burnfee as u128).sum();
            let obf: u128 = old_seg.iter().map(|&i| t.blocks[i].burnfee as u128).sum();
            if nbf < obf {
                f.push(format!("tip moved to a segment with less cumulative burn fee {} < {}", nbf, obf));
            }
        }
        for &i in &seg {
            if t.eff_invalid[i] {
                f.push(format!("tip moved onto a chain containing invalid block {}", i + 1));
            }
        }
        if let Some(&ti) = by_hash.get(&b.tip_hash) {
            if !gt_ok_at(t, &stored_after, ti) {
                f.push("tip moved to a chain without enough golden tickets at the new tip".to_string());
            }
        }
    } else if after.code == 1 {
        f.push("block reported as added on the longest chain but the tip did not move".to_string());
    }
    // conversely: a block whose arrival completes a chain that meets the criteria must be adopted
    // (candidate = path from the delivered block down to the first block of the old chain, computed
    // from previous-block hashes only, not from the node's on-chain flags)
    {
        let d = &t.blocks[delivered];
        let stored_before: BTreeSet<SaitoHash> = a.blocks.iter().map(|x| x.0).collect();
        if a.tip_id != 0 && !stored_before.contains(&d.hash) && b.tip_hash != d.hash {
            let old_list = chain_from_tip(a, t);
            let old_chain: BTreeSet<SaitoHash> = old_list.iter().map(|&i| t.blocks[i].hash).collect();
            let mut seg = vec![delivered];
            let mut cur = d.previous_block_hash;
            let mut connected = false;
            loop {
                if old_chain.contains(&cur) {
                    connected = true;
                    break;
                }
                match by_hash.get(&cur) {
                    Some(&i) if stored_before.contains(&cur) => {
                        seg.push(i);
                        cur = t.blocks[i].previous_block_hash;
                    }
                    _ => break,
                }
            }
            if connected {
                let old_seg: Vec<usize> = old_list.iter().cloned().take_while(|&i| t.blocks[i].hash != cur).collect();
                let nbf: u128 = seg.iter().map(|&i| t.blocks[i].burnfee as u128).sum();
                let obf: u128 = old_seg.iter().map(|&i| t.blocks[i].burnfee as u128).sum();
                let mut stored_with: BTreeSet<SaitoHash> = stored_before.clone();
                stored_with.insert(d.hash);
                if seg.len() > old_seg.len()
                    && nbf >= obf
                    && d.id > a.tip_id
                    && d.id > a.tip_id.saturating_sub(t.spec.gp)
                    && seg.iter().all(|&i| !t.eff_invalid[i])
                    && gt_ok_at(t, &stored_with, delivered)
                {
                    f.push(format!(
                        "block {} completes a longer ({} > {}), heavy enough, valid chain with enough golden tickets but was not adopted (answer code {})",
                        delivered + 1,
                        seg.len(),
                        old_seg.len(),
                        after.code
                    ));
                }
            }
        }
    }
    // an orphan (parent unknown, not a first block) must be inert
    let d = &t.blocks[delivered];
    let parent_known = d.previous_block_hash == [0u8; 32]
        || a.blocks.iter().any(|x| x.0 == d.previous_block_hash);
    if !parent_known && !a.blocks.is_empty() {
        if a.tip_hash != b.tip_hash || a.lc_index != b.lc_index {
            if d.id == a.tip_id {
                f.push(format!(
                    "block {} (id {} = tip height) arrived before its parent and disturbed tip/index although nothing above its id exists",
                    delivered + 1,
                    d.id
                ));
            } else {
                f.push(format!(
                    "ORPHAN: block {} (id {}) arrived before its parent and disturbed tip/index",
                    delivered + 1,
                    d.id
                ));
            }
        }
    }
    f
}

// ------------------------------------------------------------------ generators

pub fn random_spec(rng: &mut Rng, max_nodes: usize, gp: u64, invalid_pct: u64, loading: bool) -> TreeSpec {
    let n = rng.range(2, max_nodes as u64) as usize;
    let mut nodes = vec![NodeSpec { parent: None, gt: false, invalid: false, dt: 0, spend: None, bad_spend: false, bf_boost: 0 }];
    let n_outputs = 4;
    for i in 1..n {
        // mostly extend recent nodes to get long-ish forks
        let parent = if rng.chance(3, 5) {
            i - 1
        } else {
            rng.below(i as u64) as usize
        };
        nodes.push(NodeSpec {
            parent: Some(parent),
            gt: rng.chance(3, 5),
            invalid: rng.chance(invalid_pct, 100),
            dt: *rng.pick(&[2 * HEARTBEAT, 3 * HEARTBEAT, 10 * HEARTBEAT, 1000 * HEARTBEAT]),
            spend: if rng.chance(2, 3) { Some(rng.below(n_outputs as u64) as usize) } else { None },
            bad_spend: rng.chance(invalid_pct, 200),
            bf_boost: if rng.chance(1, 3) { 1_000_000_000_000 } else { 0 },
        });
    }
    let pab = *rng.pick(&[2u64, 3, 8, 8]);
    TreeSpec { gp, nodes, n_outputs, loading_completed: loading, pab, park_at: None, checkpoint: None, browser: false, dup_input_at: None }
}

/// Scripted two-branch forks: common prefix, a main branch and a side branch with chosen
/// lengths, timestamp profiles (burn fee), golden-ticket patterns, conflicting transfers and
/// an optional invalid block (header mutation or invalid transfer) at a chosen position of
/// the side branch. `k` enumerates the family.
pub fn fork_family(rng: &mut Rng, k: usize) -> TreeSpec {
    let gp = [8u64, 20, 5, 20][k % 4];
    let deep = k % 9 == 8;
    let prefix = 1 + (k / 4) % 2; // common blocks after genesis
    let m = if deep { 9 + (k / 9) % 2 } else { 1 + (k / 3) % 5 };
    let s = m + [1usize, 2, 0, 1, 3][(k / 5) % 5];
    let dts = [2 * HEARTBEAT, 1000 * HEARTBEAT, 10 * HEARTBEAT];
    let dt_main = dts[(k / 2) % 3];
    let dt_side = dts[(k / 7) % 3];
    let gt_pat = (k / 11) % 5;
    let mixed_dt = (k / 23) % 2 == 1;
    let inv_pos: Option<usize> = match (k / 13) % 5 {
        1 => Some(0),
        2 => Some(s / 2),
        3 => Some(s - 1),
        _ => None,
    };
    let inv_kind_bad_spend = (k / 17) % 2 == 1;
    let n_outputs = 8;
    let mut nodes = vec![NodeSpec { parent: None, gt: false, invalid: false, dt: 0, spend: None, bad_spend: false, bf_boost: 0 }];
    for i in 0..prefix {
        nodes.push(NodeSpec { parent: Some(i), gt: true, invalid: false, dt: 10 * HEARTBEAT, spend: Some(i % n_outputs), bad_spend: false, bf_boost: 0 });
    }
    let fork = prefix; // index of the fork point
    let mut parent = fork;
    for i in 0..m {
        nodes.push(NodeSpec {
            parent: Some(parent),
            gt: true,
            invalid: false,
            dt: dt_main + rng.below(3),
            spend: Some((prefix + i) % n_outputs),
            bad_spend: false,
            bf_boost: 0,
        });
        parent = nodes.len() - 1;
    }
    let main_tip = parent;
    parent = fork;
    for i in 0..s {
        let gt = match gt_pat {
            0 => true,
            1 => i + 2 >= s,
            2 => i == 0,
            3 => i % 2 == 0,
            _ => false,
        };
        let is_inv = inv_pos == Some(i);
        nodes.push(NodeSpec {
            parent: Some(parent),
            gt,
            invalid: is_inv && !inv_kind_bad_spend,
            dt: if mixed_dt { *rng.pick(&dts) + rng.below(3) } else { dt_side + rng.below(3) },
            // conflicting with the main branch (same outputs) or, for an invalid transfer, an
            // output spent in the common prefix
            spend: if is_inv && inv_kind_bad_spend { Some(0) } else { Some((prefix + i + (k % 2) * 3) % n_outputs) },
            bad_spend: is_inv && inv_kind_bad_spend,
            bf_boost: if (k / 31) % 2 == 1 { 1_000_000_000_000 } else { 0 },
        });
        parent = nodes.len() - 1;
    }
    if (k / 29) % 3 == 1 {
        // an invalid child of the main tip: shares its height with a block of the side branch
        nodes.push(NodeSpec {
            parent: Some(main_tip),
            gt: true,
            invalid: true,
            dt: dt_main,
            spend: Some((prefix + m) % n_outputs),
            bad_spend: false,
            bf_boost: 0,
        });
    }
    if (k / 41) % 2 == 1 && s >= m {
        // lead change back: the main branch grows past the side branch again
        let mut parent = main_tip;
        for i in 0..(s - m + 1) {
            nodes.push(NodeSpec {
                parent: Some(parent),
                gt: true,
                invalid: false,
                dt: dt_main + rng.below(3),
                spend: Some((prefix + m + i + 1) % n_outputs),
                bad_spend: false,
                bf_boost: 0,
            });
            parent = nodes.len() - 1;
        }
    }
    let pab = if deep { 8 } else { [2u64, 8, 3][(k / 19) % 3] };
    TreeSpec { gp, nodes, n_outputs, loading_completed: (k / 37) % 3 == 1, pab, park_at: None, checkpoint: None, browser: false, dup_input_at: None }
}

/// Long chains with late forks, for the purge regime (ids beyond 2 * genesis_period, ring
/// slots wrap, blocks 2 * gp below the tip are deleted): a main chain of 2gp + 2 .. 2gp + 5
/// blocks and a side branch forking `d` blocks below the main tip (d = 0 .. gp + 1) with a
/// chosen length, burn-fee profile, golden tickets and an optional invalid block. `k`
/// enumerates the family.
pub fn long_family(rng: &mut Rng, k: usize) -> TreeSpec {
    let gp = [3u64, 3, 4, 2][k % 4];
    // variant "ring wrap": the fork point has id 2gp - 1, so both branches hold a block with id
    // 2gp (slot 0) and the reorganisation unwinds it (previous slot = last slot of the ring)
    let wrap = k % 8 == 7;
    let m = if wrap { 2 * gp as usize + 1 } else { (2 * gp as usize) + 2 + (k / 4) % 4 }; // main chain blocks after genesis
    let d = if wrap { 3 } else { (k / 3) % (gp as usize + 4) }; // fork depth below the main tip (up to gp + 3: side blocks at and below latest - gp)
    let s = if wrap { 4 } else { d + [1usize, 2, 0, 3][(k / 5) % 4] }; // side branch length
    // variant "early sibling": a second block at id 3, off-chain; it must be purged together with
    // the chain block of that id once the tip reaches 3 + 2gp
    let early_sibling = (k / 2) % 3 == 1;
    let dts = [2 * HEARTBEAT, 1000 * HEARTBEAT, 10 * HEARTBEAT];
    let dt_main = dts[(k / 2) % 3];
    let dt_side = dts[(k / 7) % 3];
    let inv_pos: Option<usize> = if s == 0 {
        None
    } else {
        match (k / 11) % 5 {
            1 => Some(0),
            2 => Some(s / 2),
            3 => Some(s - 1),
            _ => None,
        }
    };
    let n_outputs = 6;
    let mut nodes = vec![NodeSpec { parent: None, gt: false, invalid: false, dt: 0, spend: None, bad_spend: false, bf_boost: 0 }];
    for i in 0..m {
        nodes.push(NodeSpec {
            parent: Some(i),
            gt: true,
            invalid: false,
            dt: dt_main + rng.below(3),
            spend: if i < n_outputs && i < gp as usize && (k / 13) % 2 == 0 { Some(i) } else { None },
            bad_spend: false,
            bf_boost: 0,
        });
    }
    if early_sibling {
        nodes.push(NodeSpec { parent: Some(1), gt: true, invalid: false, dt: dt_side + 7, spend: None, bad_spend: false, bf_boost: 0 });
    }
    let fork = m - d; // index of the fork point (main tip is index m)
    let mut parent = fork;
    for i in 0..s {
        let is_inv = inv_pos == Some(i);
        nodes.push(NodeSpec {
            parent: Some(parent),
            gt: (k / 17) % 3 != 2 || i % 2 == 0,
            invalid: is_inv,
            dt: dt_side + rng.below(3),
            spend: None,
            bad_spend: false,
            bf_boost: if (k / 19) % 2 == 1 { 1_000_000_000_000 } else { 0 },
        });
        parent = nodes.len() - 1;
    }
    TreeSpec { gp, nodes, n_outputs, loading_completed: (k / 9) % 4 == 3, pab: 1_000_000, park_at: None, checkpoint: None, browser: false, dup_input_at: None }
}

/// Linear chains for the "parked then connected" order: block q + 1 (id q + 2) is delivered before
/// block q; q is chosen so that the parked block has id 2gp - 1, 2gp (ring slot 0) or 2gp + 1; the
/// child of the parked block is invalid in half of the instances (the candidate [child, parked]
/// then winds the parked block and unwinds it again with nothing to restore).
pub fn parked_family(rng: &mut Rng, k: usize) -> TreeSpec {
    let gp = [3u64, 2, 4, 3][k % 4];
    let q = (2 * gp as usize) - 3 + (k / 4) % 3; // index of the late parent
    let n = q + 4 + (k / 12) % 2;
    let inv_child = (k / 2) % 2 == 0;
    let dts = [2 * HEARTBEAT, 1000 * HEARTBEAT, 10 * HEARTBEAT];
    let n_outputs = 6;
    let mut nodes = vec![NodeSpec { parent: None, gt: false, invalid: false, dt: 0, spend: None, bad_spend: false, bf_boost: 0 }];
    for i in 0..n {
        nodes.push(NodeSpec {
            parent: Some(i),
            gt: true,
            invalid: inv_child && i + 1 == q + 2,
            dt: dts[(k / 3) % 3] + rng.below(3),
            // genesis outputs can only be spent up to block id genesis_period + 1 (age rule)
            spend: if i < n_outputs && i < gp as usize { Some(i) } else { None },
            bad_spend: false,
            bf_boost: 0,
        });
    }
    TreeSpec { gp, nodes, n_outputs, loading_completed: false, pab: [2u64, 1_000_000][(k / 5) % 2], park_at: Some(q), checkpoint: None, browser: false, dup_input_at: None }
}

/// Oracle-only families (not compared with the Coq model, which has no clause for them):
///  kind 0: has_checkpoint is set on a stored block just before the block that triggers a
///          reorganisation over it is delivered (target: old tip / deepest old block / first new block);
///  kind 1: a block whose Block::generate fails (a transfer spending the same input twice);
///  kind 2: delivery node with the browser flag, side chain without golden tickets must be adopted.
pub fn special_family(rng: &mut Rng, k: usize) -> TreeSpec {
    let kind = k % 3;
    let gp = 8u64;
    let n_outputs = 8;
    let mut nodes = vec![NodeSpec { parent: None, gt: false, invalid: false, dt: 0, spend: None, bad_spend: false, bf_boost: 0 }];
    nodes.push(NodeSpec { parent: Some(0), gt: true, invalid: false, dt: 10 * HEARTBEAT, spend: Some(0), bad_spend: false, bf_boost: 0 });
    let fork = 1usize;
    let mut spec = TreeSpec { gp, nodes: vec![], n_outputs, loading_completed: false, pab: 1_000_000, park_at: None, checkpoint: None, browser: false, dup_input_at: None };
    match kind {
        0 => {
            let m = 1 + (k / 3) % 3;
            let s = m + 1;
            let mut parent = fork;
            for i in 0..m {
                nodes.push(NodeSpec { parent: Some(parent), gt: true, invalid: false, dt: 10 * HEARTBEAT + rng.below(3), spend: Some(1 + i), bad_spend: false, bf_boost: 0 });
                parent = nodes.len() - 1;
            }
            let main_first = fork + 1;
            let main_tip = parent;
            parent = fork;
            let side_first = nodes.len();
            for i in 0..s {
                nodes.push(NodeSpec { parent: Some(parent), gt: true, invalid: false, dt: 10 * HEARTBEAT + 5 + rng.below(3), spend: Some(4 + i % 4), bad_spend: false, bf_boost: 0 });
                parent = nodes.len() - 1;
            }
            let trigger = nodes.len() - 1;
            let (target, clean) = match (k / 9) % 3 {
                0 => (main_tip, true),
                1 => (main_first, main_first == main_tip),
                _ => (side_first, false),
            };
            spec.checkpoint = Some((trigger, target, clean));
        }
        1 => {
            let n = 4;
            for i in 0..n {
                nodes.push(NodeSpec { parent: Some(fork + i), gt: true, invalid: false, dt: 10 * HEARTBEAT + rng.below(3), spend: Some(1 + i), bad_spend: false, bf_boost: 0 });
            }
            spec.dup_input_at = Some(fork + 1 + (k / 3) % 3);
        }
        _ => {
            let m = 4 + (k / 3) % 2;
            let s = m + 2;
            let mut parent = fork;
            for i in 0..m {
                nodes.push(NodeSpec { parent: Some(parent), gt: true, invalid: false, dt: 10 * HEARTBEAT + rng.below(3), spend: Some(1 + i % 6), bad_spend: false, bf_boost: 0 });
                parent = nodes.len() - 1;
            }
            parent = fork;
            for i in 0..s {
                nodes.push(NodeSpec { parent: Some(parent), gt: false, invalid: false, dt: 10 * HEARTBEAT + 5 + rng.below(3), spend: Some(1 + i % 6), bad_spend: false, bf_boost: 0 });
                parent = nodes.len() - 1;
            }
            spec.browser = true;
        }
    }
    spec.nodes = nodes;
    spec
}

/// header burn fee of a child block (Block::generate_consensus_values: the real formula, floored at 1)
pub fn child_burnfee(parent_burnfee: u64, dt: u64) -> u64 {
    let bf = saito_core::core::consensus::burnfee::BurnFee::calculate_burnfee_for_block(parent_burnfee, 1_000_000 + dt, 1_000_000, HEARTBEAT);
    if bf == 0 {
        1
    } else {
        bf
    }
}

fn burnfee_sum(parent_burnfee: u64, dts: &[u64]) -> u128 {
    let mut bf = parent_burnfee;
    let mut sum = 0u128;
    for d in dts {
        bf = child_burnfee(bf, *d);
        sum += bf as u128;
    }
    sum
}

/// Family "equal cumulative burn fee" (C05): common prefix of PRNG-chosen length ending in the fork
/// point F, an old segment of `k` blocks (k = 1 or 2) and a candidate segment of k + 1 blocks whose
/// timestamp offsets are searched with the real burn-fee formula so that the header burn fees of the
/// two segments have exactly the same sum. Every block carries a golden ticket (density holds), all
/// blocks are valid: the only thing deciding the reorganisation is length + burn fee, at the boundary
/// old_bf == new_bf. Returns the spec with (indices of the old segment, indices of the candidate
/// segment) in tree numbering, or Err(reason) when no timestamp in the searched range gives equality.
pub async fn equal_bf_family(rng: &mut Rng, k: usize) -> Result<(TreeSpec, Vec<usize>, Vec<usize>), String> {
    let gp = *rng.pick(&[8u64, 20, 20]);
    let seg = 1 + k % 2; // old segment length
    let prefix = rng.range(1, 4) as usize; // common blocks after genesis: fork point id = prefix + 1
    let n_outputs = 8;
    let mut nodes = vec![NodeSpec { parent: None, gt: false, invalid: false, dt: 0, spend: None, bad_spend: false, bf_boost: 0 }];
    for i in 0..prefix {
        let dt = *rng.pick(&[2 * HEARTBEAT, 3 * HEARTBEAT, 4 * HEARTBEAT, 10 * HEARTBEAT]) + rng.below(50);
        nodes.push(NodeSpec { parent: Some(i), gt: true, invalid: false, dt, spend: Some(i % n_outputs), bad_spend: false, bf_boost: 0 });
    }
    let fork = prefix;
    // burn fee of the fork point: read from the header of the block the real producer builds
    let pre = build_tree(TreeSpec { gp, nodes: nodes.clone(), n_outputs, loading_completed: false, pab: 8, park_at: None, checkpoint: None, browser: false, dup_input_at: None }).await;
    if pre.blocks.len() != prefix + 1 {
        return Err("prefix not built".to_string());
    }
    let bf_f = pre.blocks[fork].burnfee;
    if bf_f < 2 {
        return Err("fork point burn fee too small".to_string());
    }
    // the burn fee of a child is round(parent_bf * sqrt(heartbeat / dt)): it takes every integer value
    // once consecutive dt differ by less than one nolan, i.e. for values below about (200 * bf^2)^(1/3)
    let tmax = (200.0 * (bf_f as f64) * (bf_f as f64)).cbrt() * 0.4;
    let base = ((HEARTBEAT as f64) * (bf_f as f64 / tmax).powi(2)).ceil() as u64;
    let base = base.max(3 * HEARTBEAT);
    let mut found: Option<(Vec<u64>, Vec<u64>)> = None;
    for _attempt in 0..80 {
        let mut cand = vec![base + rng.below(3 * base)];
        for _ in 0..seg {
            cand.push(rng.range(2 * HEARTBEAT, 3000 * HEARTBEAT));
        }
        let mut old = vec![0u64];
        for _ in 1..seg {
            old.push(rng.range(2 * HEARTBEAT, 3000 * HEARTBEAT));
        }
        let target = burnfee_sum(bf_f, &cand);
        let f = |d: u64| {
            let mut o = old.clone();
            o[0] = d;
            burnfee_sum(bf_f, &o)
        };
        // f is non-increasing in d: smallest d with f(d) <= target
        let (mut lo, mut hi) = (2 * HEARTBEAT, 64 * cand[0]);
        if f(lo) < target || f(hi) > target {
            continue;
        }
        while lo < hi {
            let mid = lo + (hi - lo) / 2;
            if f(mid) <= target {
                hi = mid;
            } else {
                lo = mid + 1;
            }
        }
        if f(lo) == target && lo != cand[0] {
            old[0] = lo;
            found = Some((old, cand));
            break;
        }
    }
    let (old, cand) = match found {
        Some(x) => x,
        None => return Err("no timestamp in range gives equal sums".to_string()),
    };
    let mut old_idx = vec![];
    let mut parent = fork;
    for (i, d) in old.iter().enumerate() {
        nodes.push(NodeSpec { parent: Some(parent), gt: true, invalid: false, dt: *d, spend: Some((prefix + i) % n_outputs), bad_spend: false, bf_boost: 0 });
        parent = nodes.len() - 1;
        old_idx.push(parent);
    }
    let mut cand_idx = vec![];
    parent = fork;
    let conflict = rng.chance(1, 2);
    for (i, d) in cand.iter().enumerate() {
        // transfers conflicting with the old segment (same genesis outputs) or disjoint from it
        let s = if conflict { prefix + i } else { prefix + seg + i };
        nodes.push(NodeSpec { parent: Some(parent), gt: true, invalid: false, dt: *d, spend: Some(s % n_outputs), bad_spend: false, bf_boost: 0 });
        parent = nodes.len() - 1;
        cand_idx.push(parent);
    }
    let spec = TreeSpec { gp, nodes, n_outputs, loading_completed: rng.chance(1, 4), pab: *rng.pick(&[2u64, 3, 8]), park_at: None, checkpoint: None, browser: false, dup_input_at: None };
    Ok((spec, old_idx, cand_idx))
}

/// a delivery order: parents-before-children mostly, sometimes shuffled, with duplicates
pub fn random_order(rng: &mut Rng, n: usize, in_order_pct: u64, allow_orphans: bool, parents: &[Option<usize>]) -> Vec<usize> {
    let mut order: Vec<usize> = (0..n).collect();
    if !rng.chance(in_order_pct, 100) {
        // random topological-ish shuffle
        for i in (1..n).rev() {
            let j = rng.below(i as u64 + 1) as usize;
            order.swap(i, j);
        }
        if !allow_orphans {
            // repair: stable-sort so that parents come first (keeps relative order of siblings/forks)
            let mut placed = vec![false; n];
            let mut out = vec![];
            while out.len() < n {
                for &k in &order {
                    if !placed[k] && parents[k].map(|p| placed[p]).unwrap_or(true) {
                        placed[k] = true;
                        out.push(k);
                        break;
                    }
                }
            }
            order = out;
        }
    }
    if rng.chance(1, 4) && n > 1 {
        let k = rng.below(n as u64) as usize;
        let pos = rng.range(1, order.len() as u64) as usize;
        order.insert(pos, order[k.min(order.len() - 1)]);
    }
    order
}

pub fn spec_json(t: &BuiltTree, order: &[usize]) -> String {
    let nodes: Vec<String> = t
        .spec
        .nodes
        .iter()
        .enumerate()
        .map(|(i, n)| {
            format!(
                "{{\"block\":{},\"parent\":{},\"id\":{},\"gt\":{},\"invalid\":{},\"bad_spend\":{},\"dt\":{},\"spends_genesis_output\":{},\"burnfee\":{}}}",
                i + 1,
                n.parent.map(|p| (p + 1).to_string()).unwrap_or("null".to_string()),
                t.blocks[i].id,
                n.gt,
                n.invalid,
                n.bad_spend,
                n.dt,
                n.spend.map(|s| s.to_string()).unwrap_or("null".to_string()),
                t.blocks[i].burnfee
            )
        })
        .collect();
    format!(
        "{{\"genesis_period\":{},\"prune_after_blocks\":{},\"initial_loading_completed\":{},\"blocks\":[{}],\"delivery_order\":{:?}}}",
        t.spec.gp,
        t.spec.pab,
        t.spec.loading_completed,
        nodes.join(","),
        order.iter().map(|i| i + 1).collect::<Vec<_>>()
    )
}

// ------------------------------------------------------------------ runner shared by c03 / c04 / c05

use crate::common::{Args, Summary};

pub struct Profile {
    pub prop: &'static str,
    pub invalid_pct: u64,
    pub allow_orphans: bool,
    pub in_order_pct: u64,
}

/// classification of an oracle failure into a listed known finding (id) or None
/// stable repair of a delivery order: every block after its parent
pub fn repair_order(order: &[usize], parents: &[Option<usize>]) -> Vec<usize> {
    let n = parents.len();
    let mut placed = vec![false; n];
    let mut out = vec![];
    let mut rest: Vec<usize> = order.to_vec();
    while !rest.is_empty() {
        let mut progressed = false;
        let mut k = 0;
        while k < rest.len() {
            let b = rest[k];
            if placed[b] || parents[b].map(|p| placed[p]).unwrap_or(true) {
                placed[b] = true;
                out.push(b);
                rest.remove(k);
                progressed = true;
                break;
            }
            k += 1;
        }
        if !progressed {
            break;
        }
    }
    out
}

pub fn classify(prop: &str, what: &str, after_orphan: bool) -> Option<&'static str> {
    // a failure belongs to the listed finding about the out-of-order branch of add_block if it
    // is the oracle's own ORPHAN message, or occurs at / after the first delivery of a block
    // not connected to the stored chain that actually disturbed tip, index, ledger or the flags
    // of other blocks (from then on the node's state is inconsistent by the finding itself)
    if after_orphan || what.starts_with("ORPHAN") {
        return Some("orphan-branch");
    }
    let _ = prop;
    None
}

pub async fn run_property(profile: &Profile, args: &Args) {
    let mut rng = Rng::new(args.seed);
    let thorough = args.tier == "thorough";
    let n_trees = if thorough { 600 } else { 120 };
    let orders_per_tree = if thorough { 10 } else { 5 };
    let mut summary = Summary::new(profile.prop);
    let mut coq_cases: Vec<String> = vec![];
    let mut distinct: BTreeSet<String> = BTreeSet::new();
    let mut case_no = 0usize;
    let mut model_cases = 0usize;
    let mut model_beyond = 0usize;
    let n_family = if thorough { 1500 } else { 330 };
    let n_long = if thorough { 400 } else { 80 };
    let n_parked = if thorough { 96 } else { 24 };
    let n_special = if thorough { 108 } else { 36 };
    // family "equal cumulative burn fee" (C05 only, generated after everything else so that the
    // histories of the other families do not depend on it)
    let n_base = n_trees + n_family + n_long + n_parked + n_special;
    let n_equal = if profile.prop != "C05" { 0 } else if thorough { 24 } else { 8 };
    for ti in 0..(n_base + n_equal) {
        let mut equal_segs: Option<(Vec<usize>, Vec<usize>)> = None;
        let spec = if ti >= n_base {
            match equal_bf_family(&mut rng, ti - n_base).await {
                Ok((spec, old_idx, cand_idx)) => {
                    equal_segs = Some((old_idx, cand_idx));
                    spec
                }
                Err(reason) => {
                    summary.count("equal_bf_dropped_precondition", &reason);
                    continue;
                }
            }
        } else if ti >= n_trees + n_family + n_long + n_parked {
            let k = ti - n_trees - n_family - n_long - n_parked;
            // checkpoints roll the tip back (C05 would only see the height decrease); the density
            // bypass is a fork-choice matter (C05) and is also given to C03 for the consistency oracle
            if (profile.prop == "C05" && k % 3 == 0) || (profile.prop == "C04" && k % 3 == 2) {
                continue;
            }
            special_family(&mut rng, k)
        } else if ti >= n_trees + n_family + n_long {
            parked_family(&mut rng, ti - n_trees - n_family - n_long)
        } else if ti >= n_trees + n_family {
            long_family(&mut rng, ti - n_trees - n_family)
        } else if ti < n_family {
            fork_family(&mut rng, ti)
        } else {
            let gp = *rng.pick(&[3u64, 5, 8, 20]);
            let max_nodes = if thorough { 14 } else { 11 };
            let loading = rng.chance(1, 3);
            random_spec(&mut rng, max_nodes, gp, profile.invalid_pct, loading)
        };
        let family = ti < n_family;
        let wanted_nodes = spec.nodes.len();
        let t = build_tree(spec).await;
        summary.count("tree_nodes_dropped_by_builder", &format!("{}", (wanted_nodes - t.blocks.len()).min(6)));
        if t.blocks.len() < 2 {
            summary.count("tree_skipped_too_small", "true");
            continue;
        }
        if let Some((old_idx, cand_idx)) = &equal_segs {
            // premise of the family, asserted on the real block headers: all blocks built and valid,
            // every block with a golden ticket, candidate one block longer, sums of header burn fees equal
            let built_all = t.blocks.len() == wanted_nodes;
            let ok = built_all && {
                let obf: u128 = old_idx.iter().map(|&i| t.blocks[i].burnfee as u128).sum();
                let nbf: u128 = cand_idx.iter().map(|&i| t.blocks[i].burnfee as u128).sum();
                obf == nbf
                    && cand_idx.len() == old_idx.len() + 1
                    && t.eff_invalid.iter().all(|x| !*x)
                    && t.blocks.iter().skip(1).all(|b| b.has_golden_ticket)
                    && t.blocks[old_idx[0]].previous_block_hash == t.blocks[cand_idx[0]].previous_block_hash
            };
            if !ok {
                summary.count("equal_bf_dropped_precondition", if built_all { "header burn fees differ from the searched ones" } else { "producer dropped a block" });
                continue;
            }
            let obf: u128 = old_idx.iter().map(|&i| t.blocks[i].burnfee as u128).sum();
            summary.count("equal_bf_scenario", &format!("old {} blocks / candidate {} blocks, fork point id {}, gp {}", old_idx.len(), cand_idx.len(), t.blocks[old_idx[0]].id - 1, t.spec.gp));
            summary.count("equal_bf_sum_magnitude", &format!("1e{}", (obf as f64).log10().floor() as i64));
        }
        let parents: Vec<Option<usize>> = t.spec.nodes.iter().map(|n| n.parent).collect();
        let mut int = intern_tree(&t);
        let blocks_g = gallina_blocks(&t, &mut int);
        for oi in 0..orders_per_tree {
            let oracle_only = t.spec.checkpoint.is_some() || t.spec.browser || t.spec.dup_input_at.is_some();
            if t.spec.checkpoint.is_some() && oi > 0 {
                continue; // the checkpoint scenario is defined for the tree order only
            }
            let loading = t.spec.loading_completed;
            let mut order = if oi == 0 {
                (0..t.blocks.len()).collect::<Vec<_>>()
            } else {
                // with initial_loading_completed out-of-order deliveries are inert and part of the model
                random_order(&mut rng, t.blocks.len(), profile.in_order_pct, profile.allow_orphans || loading, &parents)
            };
            if let Some(only) = &args.replay {
                if only.parse::<usize>().ok() != Some(case_no) {
                    case_no += 1;
                    summary.case_descs.push("{}".to_string());
                    continue;
                }
                eprintln!("replaying case {}: {}", case_no, spec_json(&t, &order));
            }
            let orphans_now = profile.allow_orphans && rng.chance(1, 5);
            if loading && oi == 1 {
                // inert orphans at chosen distances from the tip: tree order, but one block that has
                // children is delivered last, so its descendants arrive while their parent is unknown
                // (answers Retry / Invalid around the boundary id = latest - genesis_period)
                let with_children: Vec<usize> = (1..t.blocks.len()).filter(|j| parents.iter().any(|p| *p == Some(*j))).collect();
                if !with_children.is_empty() {
                    let j = with_children[rng.below(with_children.len() as u64) as usize];
                    order = (0..t.blocks.len()).filter(|x| *x != j).collect();
                    order.push(j);
                }
            }
            // "parked then connected": one block is delivered just before its parent, two above the tip
            // (tree order with one adjacent parent / child pair swapped). The out-of-order branch has
            // nothing to clear there; the block is stored off-chain and joins the chain through its child.
            let mut parked_order = false;
            let mut parked_block: Option<usize> = None;
            if !loading && oi == 2 {
                let pairs: Vec<usize> = (1..t.blocks.len().saturating_sub(1))
                    .filter(|j| parents[*j + 1] == Some(*j) && parents[*j] == Some(*j - 1))
                    .collect();
                if !pairs.is_empty() {
                    let j = match t.spec.park_at {
                        Some(q) if pairs.contains(&q) => q,
                        _ => pairs[rng.below(pairs.len() as u64) as usize],
                    };
                    order = (0..t.blocks.len()).collect();
                    order.swap(j, j + 1);
                    parked_order = true;
                    parked_block = Some(j + 1);
                }
            }
            if !loading && oi == 3 && !oracle_only {
                // "orphan at exactly tip height": block x is delivered while its parent p (and p's other
                // descendants) are withheld, after everything else; x is chosen so that its id equals the
                // highest id among the valid connected blocks delivered before it. p and the rest follow.
                let n = t.blocks.len();
                let is_desc = |mut b: usize, p: usize| -> bool {
                    loop {
                        if b == p {
                            return true;
                        }
                        match parents[b] {
                            Some(q) => b = q,
                            None => return false,
                        }
                    }
                };
                let mut cands: Vec<(usize, usize)> = vec![];
                for x in 1..n {
                    if let Some(p) = parents[x] {
                        if p == 0 {
                            continue;
                        }
                        let top = (0..n).filter(|b| !is_desc(*b, p) && !t.eff_invalid[*b]).map(|b| t.blocks[b].id).max().unwrap_or(0);
                        if t.blocks[x].id == top {
                            cands.push((x, p));
                        }
                    }
                }
                if !cands.is_empty() {
                    let (x, p) = cands[rng.below(cands.len() as u64) as usize];
                    let mut o: Vec<usize> = (0..n).filter(|b| !is_desc(*b, p)).collect();
                    o.push(x);
                    o.extend((0..n).filter(|b| is_desc(*b, p) && *b != x));
                    order = o;
                    parked_order = true;
                    parked_block = Some(x);
                }
            }
            if let (Some((old_idx, cand_idx)), 4) = (&equal_segs, oi) {
                // prefix, then a PRNG-chosen parent-respecting interleaving of the old segment with the
                // candidate minus its last block, then the last candidate block (decides on the tie)
                let first = old_idx[0];
                let mut o: Vec<usize> = (0..first).collect();
                let (mut a, mut b) = (0usize, 0usize);
                let nb = cand_idx.len() - 1;
                while a < old_idx.len() || b < nb {
                    if b >= nb || (a < old_idx.len() && rng.chance(1, 2)) {
                        o.push(old_idx[a]);
                        a += 1;
                    } else {
                        o.push(cand_idx[b]);
                        b += 1;
                    }
                }
                o.push(cand_idx[nb]);
                order = o;
                parked_order = false;
                parked_block = None;
            }
            if profile.allow_orphans && !orphans_now && !loading && !parked_order {
                // no orphan deliveries in this history: repair the order instead of dropping blocks
                order = repair_order(&order, &parents);
            }
            let out = deliver_with(&t, &mut int, &order, orphans_now, parked_block).await;
            summary.count("parked_order", &format!("{}", parked_order));
            summary.count("deliveries_skipped_parent_unknown", &format!("{}", out.skipped.min(4)));
            let order = out.delivered.clone();
            if args.replay.is_some() {
                for (k, o) in out.obs.iter().enumerate() {
                    eprintln!("delivery {} block {} -> code {} rows {:?} panic {:?}", k + 1, order[k] + 1, o.code, out.rows[k], o.panic_msg);
                }
            }
            let desc = spec_json(&t, &order);
            // oracles
            let mut prev = empty_obs();
            let mut reorgs = 0;
            let mut rejected = 0;
            for (k, o) in out.obs.iter().enumerate() {
                let mut fails: Vec<String> = vec![];
                match profile.prop {
                    "C03" => {
                        if let Some(s) = &o.snap {
                            fails = oracle_c03(&t, s);
                            if out.ring_surplus[k] != 0 {
                                fails.push(format!("block ring holds {} entries more than there are stored blocks", out.ring_surplus[k]));
                            }
                        } else {
                            fails.push(format!("add_block panicked: {:?}", o.panic_msg));
                        }
                    }
                    "C04" => {
                        fails = oracle_c04(&prev, o);
                        if (o.code == 5 || o.code == 3 || o.code == 4) && o.snap.is_some() && k > 0 && out.wallet_slips[k] != out.wallet_slips[k - 1] {
                            fails.push("rejected block changed the wallet's slips (keys / spent flags)".to_string());
                        }
                    }
                    _ => {
                        fails = oracle_c05(&t, order[k], &prev, o);
                        if let Some(m) = &o.panic_msg {
                            fails.push(format!("add_block panicked: {}", m));
                        }
                    }
                }
                if let (Some(a), Some(b)) = (&prev.snap, &o.snap) {
                    if a.tip_hash != [0u8; 32]
                        && b.tip_hash != a.tip_hash
                        && t.blocks[order[k]].previous_block_hash != a.tip_hash
                    {
                        reorgs += 1;
                    }
                }
                if o.code == 5 {
                    rejected += 1;
                }
                for w in fails {
                    let what = format!("delivery {} (block {}): {}", k + 1, order[k] + 1, w);
                    let tainted = out.first_orphan.is_some() && out.first_orphan_effect.map(|fo| k >= fo).unwrap_or(false);
                    let purge_id = out.first_purge_known.and_then(|(fo, id)| {
                        let effective = if id == "purge-disconnected-fork" { out.first_orphan_effect.unwrap_or(usize::MAX) } else { fo };
                        if k >= effective { Some(id) } else { None }
                    });
                    let cp_id = match t.spec.checkpoint {
                        Some((trig, _, false)) if out.delivered.iter().position(|x| *x == trig).map(|p| k >= p).unwrap_or(false) => Some("checkpoint-mid-reorg"),
                        _ => None,
                    };
                    match classify(profile.prop, &w, tainted).or(purge_id).or(cp_id) {
                        Some(id) => summary.known_hit(id, case_no, &what),
                        None => summary.oracle_failure(case_no, &what, &desc),
                    }
                }
                prev = o.clone();
            }
            summary.count("generator", if ti >= n_base { "equal-burn-fee" } else if ti >= n_trees + n_family + n_long + n_parked { "oracle-only" } else if ti >= n_trees + n_family + n_long { "parked" } else if ti >= n_trees + n_family { "long-chain" } else if family { "fork-family" } else { "random" });
            summary.count("blocks", &format!("{}", t.blocks.len()));
            summary.count("gp", &format!("{}", t.spec.gp));
            summary.count("reorgs", &format!("{}", reorgs.min(4)));
            summary.count("rejected", &format!("{}", rejected.min(4)));
            summary.count("in_order", &format!("{}", order.iter().enumerate().all(|(i, x)| i == *x)));
            summary.count("orphan_history", &format!("{}", out.first_orphan.is_some()));
            summary.count("orphan_parked_without_effect", &format!("{}", out.first_orphan.is_some() && out.first_orphan_effect.is_none()));
            summary.count("loading_completed", &format!("{}", loading));
            summary.count("retry_or_too_old_answers", &format!("{}", out.obs.iter().filter(|o| o.code == 4).count().min(4)));
            summary.count("purge_known_class", out.first_purge_known.map(|(_, id)| id).unwrap_or("none"));
            if let Some((old_idx, cand_idx)) = &equal_segs {
                // did a delivery decide on the tie (old segment on chain, rest of the candidate stored,
                // last candidate block arrives) and was the candidate adopted there
                let mut tie = "not reached in this order";
                for (kk, blk) in order.iter().enumerate() {
                    if *blk == *cand_idx.last().unwrap() && kk > 0 {
                        if let (Some(a), Some(b)) = (out.obs[kk - 1].snap.as_ref(), out.obs.get(kk).and_then(|o| o.snap.as_ref())) {
                            let stored = |i: usize| a.blocks.iter().any(|x| x.0 == t.blocks[i].hash);
                            if a.tip_hash == t.blocks[*old_idx.last().unwrap()].hash && cand_idx[..cand_idx.len() - 1].iter().all(|&i| stored(i)) && !stored(*blk) {
                                tie = if b.tip_hash == t.blocks[*blk].hash { "candidate adopted" } else { "candidate refused" };
                            }
                        }
                    }
                }
                summary.count("equal_bf_tie_decision", tie);
            }
            let nontrivial = match profile.prop {
                "C04" => rejected > 0,
                _ => reorgs > 0 || t.blocks.iter().any(|b| b.transactions.len() > 1),
            };
            let input = format!(
                "(({}, {}), {}, {})",
                t.spec.gp,
                gal::boolean(t.spec.loading_completed),
                blocks_g,
                gal::nlist(&order.iter().map(|i| *i as u64 + 1).collect::<Vec<_>>())
            );
            if nontrivial && distinct.insert(input.clone()) {
                summary.nontrivial += 1;
            }
            // the Coq chain model (model/ChainPurge.v) covers all block ids; histories in which a
            // block arrives before its parent stay outside (listed finding orphan-branch).
            // Row 1 of every observation gets genesis_block_id appended for the comparison.
            // (a history is left out once a delivery that is not connected to the stored chain - an orphan,
            // or a block on a fork whose fork point was purged - has had an effect: from then on the node's
            // state is inconsistent by the listed findings and validity is no longer a static bit)
            if oracle_only {
                let code_of = |blk: usize| out.delivered.iter().position(|x| *x == blk).and_then(|p| out.obs.get(p)).map(|o| o.code).unwrap_or(0);
                if let Some((trig, _, clean)) = t.spec.checkpoint {
                    summary.count("oracle_only_outcome", &format!("checkpoint expected_clean={} answer={}", clean, code_of(trig)));
                } else if let Some(j) = t.spec.dup_input_at {
                    summary.count("oracle_only_outcome", &format!("generate-fails answer={}", code_of(j)));
                } else {
                    let last = t.blocks.len() - 1;
                    let adopted = out.obs.last().and_then(|o| o.snap.as_ref()).map(|sn| sn.tip_hash == t.blocks[last].hash).unwrap_or(false);
                    summary.count("oracle_only_outcome", &format!("browser ticketless side chain adopted={}", adopted));
                }
                summary.count("oracle_only_family", if t.spec.checkpoint.is_some() { "checkpoint" } else if t.spec.browser { "browser-density-bypass" } else { "generate-fails" });
            }
            if !oracle_only && (out.first_orphan_effect.is_none() || std::env::var("VERIF_MODEL_ORPHANS").is_ok()) {
                let rows_p: Vec<Vec<Vec<u64>>> = out
                    .rows
                    .iter()
                    .zip(out.obs.iter())
                    .map(|(r, o)| {
                        let mut r = r.clone();
                        if let Some(sn) = &o.snap {
                            if r.len() > 1 {
                                r[1].push(sn.genesis_block_id);
                            }
                        }
                        r
                    })
                    .collect();
                coq_cases.push(format!("({}, {})", input, gal::nlllist(&rows_p)));
                model_cases += 1;
                let beyond = order.iter().any(|i| t.blocks[*i].id > 2 * t.spec.gp);
                summary.count("model_beyond_2gp", &format!("{}", beyond));
                if beyond {
                    model_beyond += 1;
                    summary.count("beyond_2gp_reorgs", &format!("{}", reorgs.min(4)));
                    summary.count("beyond_2gp_rejected", &format!("{}", rejected.min(4)));
                    summary.count("beyond_2gp_blocks", &format!("{}", t.blocks.len()));
                }
            }
            if summary.samples.len() < 3 && ti % 7 == 0 && oi == 1 {
                summary.samples.push(desc.clone());
            }
            summary.case_descs.push(desc);
            case_no += 1;
        }
    }
    BUILDER_PANICS.with(|c| {
        let v = c.borrow();
        if !v.is_empty() {
            summary.notes.push(format!(
                "{} candidate blocks dropped from trees because the producing node panicked when adding its own block (first: {})",
                v.len(),
                v[0]
            ));
        }
    });
    DROP_REASONS.with(|c| {
        for (k, v) in c.borrow().iter() {
            summary.count("builder_drop_reason", &format!("{} x{}", k, (*v).min(9999)));
        }
    });
    summary.evaluations = case_no as u64;
    summary.notes.push(format!(
        "{} of {} histories (no block delivered before its parent) were compared with the Coq chain model ChainPurge.run_trace_p, {} of them with block ids beyond 2*genesis_period (purge regime); those with all ids <= 2*genesis_period are also compared with Chain.run_trace; the direct oracle ran on all",
        model_cases, case_no, model_beyond
    ));
    let header = "From Saito Require Import Base Chain ChainPurge.\n\
        Definition check (c : ((N * bool) * list blk * list N) * list (list (list N))) : bool :=\n\
        let '((cfg, blocks, order), expected) := c in check_trace cfg blocks order expected.";
    let files = gal::write_shards(
        &format!("{}/cases", args.out),
        profile.prop,
        header,
        "((N * bool) * list blk * list N) * list (list (list N))",
        &coq_cases,
        args.shards,
    )
    .unwrap();
    summary.case_files = files;
    summary.write(&args.out);
}
