//! Shared by c09.rs / c10.rs (included with #[path]): generators of structured
//! values of every wire/disk format, printers of the abstract value as a
//! Gallina term of coq/model/Codec.v, field-level comparison helpers.
#![allow(dead_code)]
use saito_core::core::consensus::block::{Block, BlockType};
use saito_core::core::consensus::golden_ticket::GoldenTicket;
use saito_core::core::consensus::hop::Hop;
use saito_core::core::consensus::peers::peer_service::PeerService;
use saito_core::core::consensus::slip::{Slip, SlipType};
use saito_core::core::consensus::transaction::{Transaction, TransactionType};
use saito_core::core::msg::api_message::ApiMessage;
use saito_core::core::msg::ghost_chain_sync::GhostChainSync;
use saito_core::core::msg::handshake::HandshakeResponse;
use saito_core::core::msg::message::Message;
use saito_core::core::process::version::Version;
use saito_core::core::util::crypto::generate_keypair_from_private_key;
use verif_harness::gal;
use verif_harness::rng::Rng;

pub const SLIP_TYPES: [SlipType; 10] = [
    SlipType::Normal,
    SlipType::ATR,
    SlipType::VipInput,
    SlipType::VipOutput,
    SlipType::MinerInput,
    SlipType::MinerOutput,
    SlipType::RouterInput,
    SlipType::RouterOutput,
    SlipType::BlockStake,
    SlipType::Bound,
];
pub const TX_TYPES: [TransactionType; 9] = [
    TransactionType::Normal,
    TransactionType::Fee,
    TransactionType::GoldenTicket,
    TransactionType::ATR,
    TransactionType::Vip,
    TransactionType::SPV,
    TransactionType::Issuance,
    TransactionType::BlockStake,
    TransactionType::Bound,
];
pub const BLOCK_TYPES: [BlockType; 4] = [
    BlockType::Ghost,
    BlockType::Header,
    BlockType::Pruned,
    BlockType::Full,
];

// ---------------------------------------------------------------- random pieces

pub fn rbytes<const K: usize>(rng: &mut Rng) -> [u8; K] {
    let mut out = [0u8; K];
    // distinct non-zero bytes most of the time, all-zero / all-ff sometimes
    match rng.below(12) {
        0 => {}
        1 => out = [0xff; K],
        _ => {
            for b in out.iter_mut() {
                *b = rng.below(256) as u8;
            }
        }
    }
    out
}
pub fn rvec(rng: &mut Rng, n: usize) -> Vec<u8> {
    (0..n).map(|_| rng.below(256) as u8).collect()
}
pub fn extreme_u64(rng: &mut Rng) -> u64 {
    match rng.below(14) {
        0 => 0,
        1 => 1,
        2 => 255,
        3 => 256,
        4 => 65535,
        5 => u32::MAX as u64,
        6 => 1u64 << 32,
        7 => 1u64 << 63,
        8 => u64::MAX,
        9 => u64::MAX - 1,
        10 => 0x0102030405060708,
        _ => rng.next(),
    }
}
pub fn extreme_u32(rng: &mut Rng) -> u32 {
    match rng.below(8) {
        0 => 0,
        1 => 1,
        2 => 255,
        3 => 256,
        4 => u32::MAX,
        5 => 1u32 << 31,
        6 => 0x01020304,
        _ => rng.next() as u32,
    }
}
pub fn keypair(rng: &mut Rng) -> ([u8; 33], [u8; 32]) {
    let mut sk = [0u8; 32];
    for b in sk.iter_mut() {
        *b = rng.below(256) as u8;
    }
    sk[0] = 1 + (sk[0] % 0x7f); // always a valid scalar
    generate_keypair_from_private_key(&sk)
}

// ---------------------------------------------------------------- generators

pub fn gen_slip(rng: &mut Rng, ty: usize) -> Slip {
    let mut s = Slip::default();
    s.public_key = rbytes::<33>(rng);
    s.amount = extreme_u64(rng);
    s.block_id = extreme_u64(rng);
    s.tx_ordinal = extreme_u64(rng);
    s.slip_index = match rng.below(5) {
        0 => 0,
        1 => 255,
        _ => rng.below(256) as u8,
    };
    s.slip_type = SLIP_TYPES[ty % 10];
    s
}
pub fn gen_hop(rng: &mut Rng) -> Hop {
    Hop {
        from: rbytes::<33>(rng),
        to: rbytes::<33>(rng),
        sig: rbytes::<64>(rng),
    }
}
pub fn gen_tx(rng: &mut Rng, nfrom: usize, nto: usize, ndata: usize, nhops: usize, ty: usize) -> Transaction {
    let mut t = Transaction::default();
    t.timestamp = extreme_u64(rng);
    for i in 0..nfrom {
        t.from.push(gen_slip(rng, i + ty));
    }
    for i in 0..nto {
        t.to.push(gen_slip(rng, i + 3 * ty + 1));
    }
    t.transaction_type = TX_TYPES[ty % 9];
    // the payload of a GoldenTicket-type transaction is a 97-byte golden ticket
    // (enforced by the wire decoder since /repo eeb4ec7)
    let ndata = if let TransactionType::GoldenTicket = t.transaction_type { 97 } else { ndata };
    t.data = rvec(rng, ndata);
    t.txs_replacements = extreme_u32(rng);
    t.signature = rbytes::<64>(rng);
    for _ in 0..nhops {
        t.path.push(gen_hop(rng));
    }
    t
}
/// a transaction signed with the real secp256k1 key (from[0] belongs to the signer)
pub fn gen_signed_tx(rng: &mut Rng, nfrom: usize, nto: usize, ndata: usize, nhops: usize, ty: usize) -> (Transaction, [u8; 33]) {
    let (pk, sk) = keypair(rng);
    let mut t = gen_tx(rng, nfrom.max(1), nto, ndata, 0, ty);
    t.from[0].public_key = pk;
    t.sign(&sk);
    // routing hops signed as the code does
    let mut prev_sk = sk;
    let mut prev_pk = pk;
    for _ in 0..nhops {
        let (npk, nsk) = keypair(rng);
        let hop = Hop::generate(&prev_sk, &prev_pk, &npk, &t);
        t.path.push(hop);
        prev_sk = nsk;
        prev_pk = npk;
    }
    (t, pk)
}
pub fn gen_block(rng: &mut Rng, txs: Vec<Transaction>) -> Block {
    let mut b = Block::new();
    b.id = extreme_u64(rng);
    b.timestamp = extreme_u64(rng);
    b.previous_block_hash = rbytes::<32>(rng);
    b.creator = rbytes::<33>(rng);
    b.merkle_root = rbytes::<32>(rng);
    b.signature = rbytes::<64>(rng);
    b.graveyard = extreme_u64(rng);
    b.treasury = extreme_u64(rng);
    b.burnfee = extreme_u64(rng);
    b.difficulty = extreme_u64(rng);
    b.avg_total_fees = extreme_u64(rng);
    b.avg_fee_per_byte = extreme_u64(rng);
    b.avg_nolan_rebroadcast_per_block = extreme_u64(rng);
    b.previous_block_unpaid = extreme_u64(rng);
    b.avg_total_fees_new = extreme_u64(rng);
    b.avg_total_fees_atr = extreme_u64(rng);
    b.avg_payout_routing = extreme_u64(rng);
    b.avg_payout_mining = extreme_u64(rng);
    b.avg_payout_treasury = extreme_u64(rng);
    b.avg_payout_graveyard = extreme_u64(rng);
    b.avg_payout_atr = extreme_u64(rng);
    b.total_payout_routing = extreme_u64(rng);
    b.total_payout_mining = extreme_u64(rng);
    b.total_payout_treasury = extreme_u64(rng);
    b.total_payout_graveyard = extreme_u64(rng);
    b.total_payout_atr = extreme_u64(rng);
    b.total_fees = extreme_u64(rng);
    b.total_fees_new = extreme_u64(rng);
    b.total_fees_atr = extreme_u64(rng);
    b.fee_per_byte = extreme_u64(rng);
    b.total_fees_cumulative = extreme_u64(rng);
    b.transactions = txs;
    b
}
/// distinct, recognisable header numbers (field i = 0x1100 + i) to catch swaps
pub fn gen_block_distinct(rng: &mut Rng, txs: Vec<Transaction>) -> Block {
    let mut b = gen_block(rng, txs);
    let base = 0xA0B0_C0D0_0000_1100u64;
    b.id = base + 1;
    b.timestamp = base + 2;
    b.graveyard = base + 3;
    b.treasury = base + 4;
    b.burnfee = base + 5;
    b.difficulty = base + 6;
    b.avg_total_fees = base + 7;
    b.avg_fee_per_byte = base + 8;
    b.avg_nolan_rebroadcast_per_block = base + 9;
    b.previous_block_unpaid = base + 10;
    b.avg_total_fees_new = base + 11;
    b.avg_total_fees_atr = base + 12;
    b.avg_payout_routing = base + 13;
    b.avg_payout_mining = base + 14;
    b.avg_payout_treasury = base + 15;
    b.avg_payout_graveyard = base + 16;
    b.avg_payout_atr = base + 17;
    b.total_payout_routing = base + 18;
    b.total_payout_mining = base + 19;
    b.total_payout_treasury = base + 20;
    b.total_payout_graveyard = base + 21;
    b.total_payout_atr = base + 22;
    b.total_fees = base + 23;
    b.total_fees_new = base + 24;
    b.total_fees_atr = base + 25;
    b.fee_per_byte = base + 26;
    b.total_fees_cumulative = base + 27;
    b
}
const WORDS: [&str; 10] = [
    "", "a", "archive", "saito.io", "relay", "r\u{e9}seau", "\u{4e2d}\u{6587}", "x-y_z.0", "crypto", "\u{1F600}",
];
pub fn gen_service(rng: &mut Rng) -> PeerService {
    PeerService {
        service: WORDS[1 + rng.below(9) as usize].to_string(),
        domain: WORDS[rng.below(10) as usize].to_string(),
        name: WORDS[rng.below(10) as usize].to_string(),
    }
}
pub fn gen_services(rng: &mut Rng, n: usize) -> Vec<PeerService> {
    (0..n).map(|_| gen_service(rng)).collect()
}
pub fn gen_version(rng: &mut Rng) -> Version {
    Version {
        major: *rng.pick(&[0u8, 1, 255, 17]),
        minor: *rng.pick(&[0u8, 2, 255, 99]),
        patch: *rng.pick(&[0u16, 3, 255, 256, 65535, 0x0102]),
    }
}
pub fn gen_hs_response(rng: &mut Rng, url: &str, nsvc: usize) -> HandshakeResponse {
    HandshakeResponse {
        public_key: rbytes::<33>(rng),
        signature: rbytes::<64>(rng),
        is_lite: rng.chance(1, 2),
        block_fetch_url: url.to_string(),
        challenge: rbytes::<32>(rng),
        services: gen_services(rng, nsvc),
        wallet_version: gen_version(rng),
        core_version: gen_version(rng),
    }
}
pub fn gen_ghost(rng: &mut Rng, n: usize) -> GhostChainSync {
    GhostChainSync {
        start: rbytes::<32>(rng),
        prehashes: (0..n).map(|_| rbytes::<32>(rng)).collect(),
        previous_block_hashes: (0..n).map(|_| rbytes::<32>(rng)).collect(),
        block_ids: (0..n).map(|_| extreme_u64(rng)).collect(),
        block_ts: (0..n).map(|_| extreme_u64(rng)).collect(),
        txs: (0..n).map(|_| rng.chance(1, 2)).collect(),
        gts: (0..n).map(|_| rng.chance(1, 2)).collect(),
    }
}
pub fn gen_api(rng: &mut Rng, n: usize) -> ApiMessage {
    ApiMessage {
        msg_index: extreme_u32(rng),
        data: rvec(rng, n),
    }
}

// ---------------------------------------------------------------- Gallina printers

/// a byte string as a Gallina `list N`; long strings are split so that no
/// string literal is deeper than 2000 characters (coqc's stack)
pub fn g_bytes(b: &[u8]) -> String {
    if b.is_empty() {
        "[]".to_string()
    } else if b.len() <= 1000 {
        format!("(of_hex {})", gal::hex(b))
    } else {
        let parts: Vec<String> = b.chunks(1000).map(|c| format!("of_hex {}", gal::hex(c))).collect();
        format!("({})", parts.join(" ++ "))
    }
}
pub fn g_slip(s: &Slip) -> String {
    format!(
        "(mkSlip {} {} {} {} {} {})",
        g_bytes(&s.public_key),
        s.amount,
        s.block_id,
        s.tx_ordinal,
        s.slip_index,
        s.slip_type as u8
    )
}
pub fn g_hop(h: &Hop) -> String {
    format!("(mkHop {} {} {})", g_bytes(&h.from), g_bytes(&h.to), g_bytes(&h.sig))
}
pub fn g_tx(t: &Transaction) -> String {
    format!(
        "(mkTx {} {} {} {} {} {} {} {})",
        t.timestamp,
        gal::list(&t.from.iter().map(g_slip).collect::<Vec<_>>()),
        gal::list(&t.to.iter().map(g_slip).collect::<Vec<_>>()),
        g_bytes(&t.data),
        t.transaction_type as u8,
        t.txs_replacements,
        g_bytes(&t.signature),
        gal::list(&t.path.iter().map(g_hop).collect::<Vec<_>>())
    )
}
/// `ty` = the in-memory block_type to print (the encoder ignores it)
pub fn g_block(b: &Block) -> String {
    format!(
        "(mkBlock {} {} {} {} {} {} {} {} {} {} {} {} {} {} {} {} {} {} {} {} {} {} {} {} {} {} {} {} {} {} {} {} {})",
        b.id,
        b.timestamp,
        g_bytes(&b.previous_block_hash),
        g_bytes(&b.creator),
        g_bytes(&b.merkle_root),
        g_bytes(&b.signature),
        b.graveyard,
        b.treasury,
        b.burnfee,
        b.difficulty,
        b.avg_total_fees,
        b.avg_fee_per_byte,
        b.avg_nolan_rebroadcast_per_block,
        b.previous_block_unpaid,
        b.avg_total_fees_new,
        b.avg_total_fees_atr,
        b.avg_payout_routing,
        b.avg_payout_mining,
        b.avg_payout_treasury,
        b.avg_payout_graveyard,
        b.avg_payout_atr,
        b.total_payout_routing,
        b.total_payout_mining,
        b.total_payout_treasury,
        b.total_payout_graveyard,
        b.total_payout_atr,
        b.total_fees,
        b.total_fees_new,
        b.total_fees_atr,
        b.fee_per_byte,
        b.total_fees_cumulative,
        gal::list(&b.transactions.iter().map(g_tx).collect::<Vec<_>>()),
        b.block_type as u8
    )
}
pub fn g_version(v: &Version) -> String {
    format!("(mkVersion {} {} {})", v.major, v.minor, v.patch)
}
pub fn g_service(s: &PeerService) -> String {
    format!(
        "(mkService {} {} {})",
        g_bytes(s.service.as_bytes()),
        g_bytes(s.domain.as_bytes()),
        g_bytes(s.name.as_bytes())
    )
}
pub fn g_services(v: &[PeerService]) -> String {
    gal::list(&v.iter().map(g_service).collect::<Vec<_>>())
}
pub fn g_hs_response(r: &HandshakeResponse) -> String {
    format!(
        "(mkHsResponse {} {} {} {} {} {} {} {})",
        g_bytes(&r.public_key),
        g_bytes(&r.signature),
        gal::boolean(r.is_lite),
        g_bytes(r.block_fetch_url.as_bytes()),
        g_bytes(&r.challenge),
        g_services(&r.services),
        g_version(&r.wallet_version),
        g_version(&r.core_version)
    )
}
pub fn g_bc_request(id: u64, hash: &[u8; 32], fork: &[u8; 32]) -> String {
    format!("(mkBcRequest {} {} {})", id, g_bytes(hash), g_bytes(fork))
}
pub fn g_ghost(g: &GhostChainSync) -> String {
    format!(
        "(mkGhost {} {} {} {} {} {} {})",
        g_bytes(&g.start),
        gal::list(&g.prehashes.iter().map(|h| g_bytes(h)).collect::<Vec<_>>()),
        gal::list(&g.previous_block_hashes.iter().map(|h| g_bytes(h)).collect::<Vec<_>>()),
        gal::nlist(&g.block_ids),
        gal::nlist(&g.block_ts),
        gal::list(&g.txs.iter().map(|b| gal::boolean(*b)).collect::<Vec<_>>()),
        gal::list(&g.gts.iter().map(|b| gal::boolean(*b)).collect::<Vec<_>>())
    )
}
pub fn g_api(a: &ApiMessage) -> String {
    format!("(mkApi {} {})", a.msg_index, g_bytes(&a.data))
}
pub fn g_gt(target: &[u8; 32], random: &[u8; 32], pk: &[u8; 33]) -> String {
    format!("(mkGt {} {} {})", g_bytes(target), g_bytes(random), g_bytes(pk))
}
pub fn g_wallet(sk: &[u8; 32], pk: &[u8; 33]) -> String {
    format!("(mkWallet {} {})", g_bytes(sk), g_bytes(pk))
}

// ---------------------------------------------------------------- field-level equality (wire fields only)

pub fn slip_eq(a: &Slip, b: &Slip) -> bool {
    a.public_key == b.public_key
        && a.amount == b.amount
        && a.block_id == b.block_id
        && a.tx_ordinal == b.tx_ordinal
        && a.slip_index == b.slip_index
        && a.slip_type == b.slip_type
}
pub fn hop_eq(a: &Hop, b: &Hop) -> bool {
    a.from == b.from && a.to == b.to && a.sig == b.sig
}
pub fn tx_eq(a: &Transaction, b: &Transaction) -> bool {
    a.timestamp == b.timestamp
        && a.from.len() == b.from.len()
        && a.from.iter().zip(b.from.iter()).all(|(x, y)| slip_eq(x, y))
        && a.to.len() == b.to.len()
        && a.to.iter().zip(b.to.iter()).all(|(x, y)| slip_eq(x, y))
        && a.data == b.data
        && a.transaction_type == b.transaction_type
        && a.txs_replacements == b.txs_replacements
        && a.signature == b.signature
        && a.path.len() == b.path.len()
        && a.path.iter().zip(b.path.iter()).all(|(x, y)| hop_eq(x, y))
}
pub fn block_header_nums(b: &Block) -> Vec<u64> {
    vec![
        b.id,
        b.timestamp,
        b.graveyard,
        b.treasury,
        b.burnfee,
        b.difficulty,
        b.avg_total_fees,
        b.avg_fee_per_byte,
        b.avg_nolan_rebroadcast_per_block,
        b.previous_block_unpaid,
        b.avg_total_fees_new,
        b.avg_total_fees_atr,
        b.avg_payout_routing,
        b.avg_payout_mining,
        b.avg_payout_treasury,
        b.avg_payout_graveyard,
        b.avg_payout_atr,
        b.total_payout_routing,
        b.total_payout_mining,
        b.total_payout_treasury,
        b.total_payout_graveyard,
        b.total_payout_atr,
        b.total_fees,
        b.total_fees_new,
        b.total_fees_atr,
        b.fee_per_byte,
        b.total_fees_cumulative,
    ]
}
pub fn block_header_eq(a: &Block, b: &Block) -> bool {
    block_header_nums(a) == block_header_nums(b)
        && a.previous_block_hash == b.previous_block_hash
        && a.creator == b.creator
        && a.merkle_root == b.merkle_root
        && a.signature == b.signature
}
pub fn services_eq(a: &[PeerService], b: &[PeerService]) -> bool {
    a.len() == b.len()
        && a.iter()
            .zip(b.iter())
            .all(|(x, y)| x.service == y.service && x.domain == y.domain && x.name == y.name)
}
pub fn version_eq(a: &Version, b: &Version) -> bool {
    a.major == b.major && a.minor == b.minor && a.patch == b.patch
}

/// The fields of BlockchainRequest are pub(crate); they are read from the
/// derived Debug text: `BlockchainRequest { latest_block_id: 10, latest_block_hash: [..], fork_id: [..] }`
pub fn parse_debug_u64(text: &str, field: &str) -> Option<u64> {
    let key = format!("{}: ", field);
    let i = text.find(&key)? + key.len();
    let rest = &text[i..];
    let end = rest.find(|c: char| !c.is_ascii_digit())?;
    rest[..end].parse().ok()
}
pub fn parse_debug_bytes(text: &str, field: &str) -> Option<Vec<u8>> {
    let key = format!("{}: [", field);
    let i = text.find(&key)? + key.len();
    let rest = &text[i..];
    let end = rest.find(']')?;
    let inner = &rest[..end];
    if inner.trim().is_empty() {
        return Some(vec![]);
    }
    inner
        .split(',')
        .map(|x| x.trim().parse::<u8>().ok())
        .collect::<Option<Vec<u8>>>()
}

pub fn message_tag_name(m: &Message) -> &'static str {
    match m {
        Message::HandshakeChallenge(_) => "HandshakeChallenge",
        Message::HandshakeResponse(_) => "HandshakeResponse",
        Message::Block(_) => "Block",
        Message::Transaction(_) => "Transaction",
        Message::BlockchainRequest(_) => "BlockchainRequest",
        Message::BlockHeaderHash(_, _) => "BlockHeaderHash",
        Message::Ping() => "Ping",
        Message::SPVChain() => "SPVChain",
        Message::Services(_) => "Services",
        Message::GhostChain(_) => "GhostChain",
        Message::GhostChainRequest(..) => "GhostChainRequest",
        Message::ApplicationMessage(_) => "ApplicationMessage",
        Message::Result(_) => "Result",
        Message::Error(_) => "Error",
        Message::KeyListUpdate(_) => "KeyListUpdate",
    }
}

pub fn panic_message(e: Box<dyn std::any::Any + Send>) -> String {
    if let Some(s) = e.downcast_ref::<String>() {
        s.clone()
    } else if let Some(s) = e.downcast_ref::<&str>() {
        s.to_string()
    } else {
        "?".to_string()
    }
}

pub fn golden_ticket_fields(gt: &GoldenTicket) -> ([u8; 32], Vec<u8>, Vec<u8>) {
    let text = format!("{:?}", gt);
    (
        gt.target,
        parse_debug_bytes(&text, "random").unwrap_or_default(),
        parse_debug_bytes(&text, "public_key").unwrap_or_default(),
    )
}
