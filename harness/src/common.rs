//! Command line, run summary (read by bin/check), JSON helpers.
use std::collections::BTreeMap;
use std::io::Write;

pub struct Args {
    pub seed: u64,
    pub tier: String,
    pub out: String,
    pub shards: usize,
    pub replay: Option<String>,
}
impl Args {
    pub fn parse() -> Args {
        let mut a = Args {
            seed: 1,
            tier: "quick".to_string(),
            out: "work/out".to_string(),
            shards: 16,
            replay: None,
        };
        let v: Vec<String> = std::env::args().collect();
        let mut i = 1;
        while i < v.len() {
            match v[i].as_str() {
                "--seed" => {
                    a.seed = v[i + 1].parse().expect("seed");
                    i += 1;
                }
                "--tier" => {
                    a.tier = v[i + 1].clone();
                    i += 1;
                }
                "--out" => {
                    a.out = v[i + 1].clone();
                    i += 1;
                }
                "--shards" => {
                    a.shards = v[i + 1].parse().expect("shards");
                    i += 1;
                }
                "--replay" => {
                    a.replay = Some(v[i + 1].clone());
                    i += 1;
                }
                _ => {}
            }
            i += 1;
        }
        a
    }
}

pub fn jstr(s: &str) -> String {
    let mut o = String::from("\"");
    for c in s.chars() {
        match c {
            '"' => o.push_str("\\\""),
            '\\' => o.push_str("\\\\"),
            '\n' => o.push_str("\\n"),
            '\t' => o.push_str("\\t"),
            c if (c as u32) < 0x20 => o.push_str(&format!("\\u{:04x}", c as u32)),
            c => o.push(c),
        }
    }
    o.push('"');
    o
}

pub struct Summary {
    pub property: String,
    pub evaluations: u64,
    pub nontrivial: u64,
    pub distribution: BTreeMap<String, BTreeMap<String, u64>>,
    /// (case index, what failed, JSON description of the case)
    pub oracle_failures: Vec<(usize, String, String)>,
    /// failures that belong to a listed known finding: (finding id, case, what)
    pub known_hits: Vec<(String, usize, String)>,
    /// JSON values
    pub samples: Vec<String>,
    /// JSON description of every case (cases.jsonl), index = case number
    pub case_descs: Vec<String>,
    pub case_files: Vec<String>,
    pub notes: Vec<String>,
}
impl Summary {
    pub fn new(property: &str) -> Summary {
        Summary {
            property: property.to_string(),
            evaluations: 0,
            nontrivial: 0,
            distribution: BTreeMap::new(),
            oracle_failures: vec![],
            known_hits: vec![],
            samples: vec![],
            case_descs: vec![],
            case_files: vec![],
            notes: vec![],
        }
    }
    pub fn count(&mut self, dim: &str, val: &str) {
        *self
            .distribution
            .entry(dim.to_string())
            .or_default()
            .entry(val.to_string())
            .or_insert(0) += 1;
    }
    pub fn oracle_failure(&mut self, case: usize, what: &str, desc: &str) {
        if self.oracle_failures.len() < 200 {
            self.oracle_failures
                .push((case, what.to_string(), desc.to_string()));
        }
    }
    pub fn known_hit(&mut self, id: &str, case: usize, what: &str) {
        if self.known_hits.len() < 2000 {
            self.known_hits.push((id.to_string(), case, what.to_string()));
        }
    }
    pub fn write(&self, out: &str) {
        std::fs::create_dir_all(out).unwrap();
        let mut f = std::io::BufWriter::new(
            std::fs::File::create(format!("{}/cases.jsonl", out)).unwrap(),
        );
        for d in &self.case_descs {
            writeln!(f, "{}", d).unwrap();
        }
        let mut s = String::new();
        s.push_str("{\n");
        s.push_str(&format!("\"property\": {},\n", jstr(&self.property)));
        s.push_str(&format!("\"evaluations\": {},\n", self.evaluations));
        s.push_str(&format!("\"distinct_nontrivial\": {},\n", self.nontrivial));
        s.push_str("\"distribution\": {");
        let mut first = true;
        for (k, m) in &self.distribution {
            if !first {
                s.push(',');
            }
            first = false;
            s.push_str(&format!("{}: {{", jstr(k)));
            let mut f2 = true;
            for (kk, v) in m {
                if !f2 {
                    s.push(',');
                }
                f2 = false;
                s.push_str(&format!("{}: {}", jstr(kk), v));
            }
            s.push('}');
        }
        s.push_str("},\n\"oracle_failures\": [");
        for (i, (c, w, d)) in self.oracle_failures.iter().enumerate() {
            if i > 0 {
                s.push(',');
            }
            s.push_str(&format!(
                "{{\"case\": {}, \"what\": {}, \"input\": {}}}",
                c,
                jstr(w),
                d
            ));
        }
        s.push_str("],\n\"known_hits\": [");
        for (i, (id, c, w)) in self.known_hits.iter().enumerate() {
            if i > 0 {
                s.push(',');
            }
            s.push_str(&format!(
                "{{\"finding\": {}, \"case\": {}, \"what\": {}}}",
                jstr(id),
                c,
                jstr(w)
            ));
        }
        s.push_str("],\n\"samples\": [");
        s.push_str(&self.samples.join(","));
        s.push_str("],\n\"case_files\": [");
        s.push_str(
            &self
                .case_files
                .iter()
                .map(|x| jstr(x))
                .collect::<Vec<_>>()
                .join(","),
        );
        s.push_str("],\n\"notes\": [");
        s.push_str(
            &self
                .notes
                .iter()
                .map(|x| jstr(x))
                .collect::<Vec<_>>()
                .join(","),
        );
        s.push_str("]\n}\n");
        std::fs::write(format!("{}/summary.json", out), s).unwrap();
    }
}

/// minimal stderr logger for debugging: VERIF_LOG=error|warn|info|debug|trace
struct StderrLogger;
impl log::Log for StderrLogger {
    fn enabled(&self, _m: &log::Metadata) -> bool {
        true
    }
    fn log(&self, r: &log::Record) {
        if r.target().starts_with("saito") || r.target().starts_with("verif") {
            eprintln!("[{}] {}: {}", r.level(), r.target(), r.args());
        }
    }
    fn flush(&self) {}
}
static LOGGER: StderrLogger = StderrLogger;
pub fn init_log() {
    if let Ok(l) = std::env::var("VERIF_LOG") {
        let lvl = match l.as_str() {
            "error" => log::LevelFilter::Error,
            "warn" => log::LevelFilter::Warn,
            "info" => log::LevelFilter::Info,
            "debug" => log::LevelFilter::Debug,
            _ => log::LevelFilter::Trace,
        };
        let _ = log::set_logger(&LOGGER);
        log::set_max_level(lvl);
    }
}
