//! Shared by c02.rs / c13.rs (included with #[path]): a real node (world.rs) driven block
//! by block; every step is recorded as a `CVRun.step` literal for the Coq model
//! (Block::create output, add_block verdict, in-window utxo set) and the direct oracles
//! of C02 (big-integer supply, no transaction pays out more than it consumes) and C13
//! (exactly-once rebroadcast at the window edge) are evaluated on the implementation.
#![allow(dead_code)]
use std::collections::{BTreeMap, BTreeSet};
use std::panic::AssertUnwindSafe;

use saito_core::core::consensus::block::{Block, BlockType};
use saito_core::core::consensus::burnfee::BurnFee;
use saito_core::core::consensus::golden_ticket::GoldenTicket;
use saito_core::core::consensus::slip::{Slip, SlipType};
use saito_core::core::consensus::transaction::{Transaction, TransactionType};
use saito_core::core::consensus::wallet::Wallet;
use saito_core::core::defs::{SaitoHash, SaitoPrivateKey, SaitoPublicKey};
use saito_core::core::util::crypto::{hash, verify_signature};
use verif_harness::chainsim::futures_catch;
use verif_harness::gal;
use verif_harness::rng::Rng;
use verif_harness::world::*;

pub const HEARTBEAT: u64 = 100;

pub fn dbg_profile() -> bool {
    cfg!(debug_assertions)
}

// ------------------------------------------------------------------ abstraction

pub fn abs_slip(s: &Slip, int: &mut Interner) -> String {
    format!(
        "mkSlip {} {} {} {} {} {}",
        int.get(&s.public_key),
        s.amount,
        s.slip_type as u8,
        s.block_id,
        s.tx_ordinal,
        s.slip_index
    )
}

pub fn abs_slips(v: &[Slip], int: &mut Interner) -> String {
    gal::list(&v.iter().map(|s| format!("({})", abs_slip(s, int))).collect::<Vec<_>>())
}

/// the verdict of Transaction::validate apart from the utxo lookups
pub fn static_ok(node: &Node, tx: &Transaction) -> bool {
    let t = tx.clone();
    std::panic::catch_unwind(AssertUnwindSafe(|| {
        t.validate(&node.blockchain.utxoset, &node.blockchain, false)
    }))
    .unwrap_or(false)
}

pub fn abs_tx(node: &Node, tx: &Transaction, int: &mut Interner) -> String {
    let ser = tx.serialize_for_net();
    format!(
        "mkTx {} {} {} {} {} {} {} {} {}",
        tx.transaction_type as u8,
        tx.timestamp,
        abs_slips(&tx.from, int),
        abs_slips(&tx.to, int),
        tx.data.len(),
        tx.path.len(),
        int.get(&tx.data),
        int.get(&ser),
        gal::boolean(static_ok(node, tx))
    )
}

pub fn abs_txs(node: &Node, txs: &[Transaction], int: &mut Interner) -> String {
    gal::list(&txs.iter().map(|t| format!("({})", abs_tx(node, t, int))).collect::<Vec<_>>())
}

pub fn abs_hdr(b: &Block) -> String {
    format!(
        "mkHdr {} {} {} {} {} {} {} {} {} {} {} {} {} {} {} {} {} {} {} {} {} {} {} {} {} {} {} {}",
        b.id,
        b.timestamp,
        b.treasury,
        b.graveyard,
        b.previous_block_unpaid,
        b.total_fees,
        b.total_fees_new,
        b.total_fees_atr,
        b.total_fees_cumulative,
        b.avg_total_fees,
        b.avg_total_fees_new,
        b.avg_total_fees_atr,
        b.total_payout_routing,
        b.total_payout_mining,
        b.total_payout_treasury,
        b.total_payout_graveyard,
        b.total_payout_atr,
        b.avg_payout_routing,
        b.avg_payout_mining,
        b.avg_payout_treasury,
        b.avg_payout_graveyard,
        b.avg_payout_atr,
        b.avg_fee_per_byte,
        b.fee_per_byte,
        b.avg_nolan_rebroadcast_per_block,
        b.burnfee,
        b.difficulty,
        gal::boolean(b.transactions.iter().any(|t| t.transaction_type == TransactionType::GoldenTicket))
    )
}

/// lottery winners as the real code computes them for a block on `parent`
pub fn lottery(node: &Node, txs: &[Transaction], parent_hash: &SaitoHash) -> ([u8; 33], [u8; 33], [u8; 33]) {
    let zero = [0u8; 33];
    let gt = txs.iter().rev().find(|t| t.transaction_type == TransactionType::GoldenTicket);
    let gt = match gt {
        Some(g) if g.data.len() == 97 => g,
        _ => return (zero, zero, zero),
    };
    let mut miner = [0u8; 33];
    miner.copy_from_slice(&gt.data[64..97]);
    let mut random = [0u8; 32];
    random.copy_from_slice(&gt.data[32..64]);
    let mut next = hash(&random);
    let (mut r1, mut r2) = (zero, zero);
    if let Some(prev) = node.blockchain.get_block(parent_hash) {
        r1 = std::panic::catch_unwind(AssertUnwindSafe(|| prev.find_winning_router(next))).unwrap_or(zero);
        next = hash(&next);
        next = hash(&next);
        if !prev.has_golden_ticket {
            if let Some(pp) = node.blockchain.get_block(&prev.previous_block_hash) {
                r2 = std::panic::catch_unwind(AssertUnwindSafe(|| pp.find_winning_router(next))).unwrap_or(zero);
            }
        }
    }
    (miner, r1, r2)
}

pub fn abs_oracle(node: &Node, txs: &[Transaction], parent_hash: &SaitoHash, int: &mut Interner) -> String {
    let (m, r1, r2) = lottery(node, txs, parent_hash);
    format!("mkOracle {} {} {}", int.get(&m), int.get(&r1), int.get(&r2))
}

pub fn bf_calc(node: &Node, parent_hash: &SaitoHash, ts: u64) -> u64 {
    match node.blockchain.get_block(parent_hash) {
        Some(p) => BurnFee::calculate_burnfee_for_block(p.burnfee, ts, p.timestamp, HEARTBEAT),
        None => 0,
    }
}

pub fn abs_block(node: &Node, b: &Block, int: &mut Interner) -> String {
    let parent = node.blockchain.get_block(&b.previous_block_hash);
    let work_ok = match parent {
        Some(p) => {
            b.total_work
                >= BurnFee::return_routing_work_needed_to_produce_block_in_nolan(p.burnfee, b.timestamp, p.timestamp, HEARTBEAT)
        }
        None => true,
    };
    let gt_ok = match (parent, b.transactions.iter().rev().find(|t| t.transaction_type == TransactionType::GoldenTicket)) {
        (Some(p), Some(g)) if g.data.len() == 97 => {
            let bytes = [&p.hash[..], &g.data[32..97]].concat();
            GoldenTicket::deserialize_from_net(&bytes).validate(p.difficulty)
        }
        _ => false,
    };
    let merkle_ok = b.merkle_root == b.generate_merkle_root(false, false);
    let sig_ok = verify_signature(&b.pre_hash, &b.signature, &b.creator);
    format!(
        "mkBlock ({}) {} {} ({}) {} {} {} {}",
        abs_hdr(b),
        abs_txs(node, &b.transactions, int),
        bf_calc(node, &b.previous_block_hash, b.timestamp),
        abs_oracle(node, &b.transactions, &b.previous_block_hash, int),
        gal::boolean(sig_ok),
        gal::boolean(work_ok),
        gal::boolean(gt_ok),
        gal::boolean(merkle_ok)
    )
}

/// spendable entries of the real utxo set as slips, canonical order (bid, ord, idx, amt, ty, pk)
pub fn utxo_slips(node: &Node) -> Vec<Slip> {
    let mut v: Vec<Slip> = node
        .blockchain
        .utxoset
        .iter()
        .filter(|(_, f)| **f)
        .map(|(k, _)| Slip::parse_slip_from_utxokey(k).unwrap())
        .collect();
    v.sort_by_key(|s| (s.block_id, s.tx_ordinal, s.slip_index, s.amount, s.slip_type as u8, s.public_key));
    v
}

pub fn window_utxo(node: &Node, int: &mut Interner) -> String {
    let tip = node.blockchain.get_latest_block_id();
    let lo = tip.saturating_sub(node.params.genesis_period);
    let mut v: Vec<(u64, u64, u8, u64, u8, u64, Slip)> = utxo_slips(node)
        .into_iter()
        .filter(|s| s.block_id >= lo)
        .map(|s| (s.block_id, s.tx_ordinal, s.slip_index, s.amount, s.slip_type as u8, int.get(&s.public_key), s))
        .collect();
    // the model orders by the interned key
    v.sort_by_key(|t| (t.0, t.1, t.2, t.3, t.4, t.5));
    let slips: Vec<Slip> = v.into_iter().map(|t| t.6).collect();
    abs_slips(&slips, int)
}

// ------------------------------------------------------------------ oracles on the implementation

/// big-integer supply of the node's state: in-window spendable non-Bound outputs + reservoirs of the tip
pub fn big_supply(node: &Node) -> Option<u128> {
    let tip = node.blockchain.get_latest_block()?;
    let lo = tip.id.saturating_sub(node.params.genesis_period);
    let mut s: u128 = 0;
    for sl in utxo_slips(node) {
        if sl.slip_type == SlipType::Bound || sl.block_id < lo {
            continue;
        }
        s += sl.amount as u128;
    }
    Some(s + tip.treasury as u128 + tip.graveyard as u128 + tip.previous_block_unpaid as u128 + tip.total_fees as u128)
}

pub fn big_in_out(tx: &Transaction) -> (u128, u128) {
    let f = |v: &Vec<Slip>| v.iter().filter(|s| s.slip_type != SlipType::Bound).map(|s| s.amount as u128).sum::<u128>();
    (f(&tx.from), f(&tx.to))
}

// ------------------------------------------------------------------ builders

pub fn slip_out(pk: SaitoPublicKey, amount: u64, ty: SlipType) -> Slip {
    let mut o = Slip::default();
    o.public_key = pk;
    o.amount = amount;
    o.slip_type = ty;
    o
}

pub fn raw_tx(ty: TransactionType, from: Vec<Slip>, to: Vec<Slip>, sk: &SaitoPrivateKey, ts: u64) -> Transaction {
    let mut tx = Transaction::default();
    tx.transaction_type = ty;
    tx.timestamp = ts;
    for mut s in from {
        s.generate_utxoset_key();
        tx.add_from_slip(s);
    }
    for s in to {
        tx.add_to_slip(s);
    }
    tx.sign(sk);
    tx
}

/// golden ticket for `parent` naming `miner` (may be the all-zero key), signed by the node
pub async fn gt_tx_for(node: &Node, parent: &Block, miner: SaitoPublicKey, seed: u64) -> Transaction {
    let gt = mine_golden_ticket(parent.hash, parent.difficulty, miner, seed);
    let mut t = Wallet::create_golden_ticket_transaction(gt, &node.pk, &node.sk).await;
    t.generate(&node.pk, 0, 0);
    t
}

/// the real Block::create on the node's tip state
pub async fn create_block(
    node: &Node,
    parent_hash: SaitoHash,
    ts: u64,
    txs: &[Transaction],
    gt: Option<Transaction>,
) -> Result<Result<Block, String>, String> {
    let fut = async {
        let mut map = fixed_tx_map();
        for tx in txs {
            let mut tx = tx.clone();
            tx.generate(&node.pk, 0, 0);
            map.insert(tx.signature, tx);
        }
        let r = Block::create(&mut map, parent_hash, &node.blockchain, ts, &node.pk, &node.sk, gt, &node.cfg, &node.storage).await;
        match r {
            Ok(mut b) => {
                let _ = b.generate();
                b.sign(&node.sk);
                let _ = b.generate();
                Ok(b)
            }
            Err(e) => Err(format!("{:?}", e)),
        }
    };
    futures_catch(AssertUnwindSafe(fut)).await
}

/// After the transactions of a block were edited by an attacker: make the header consistent
/// with them the way Block::create would (the real generate_consensus_values says what to put)
pub async fn refill_header(node: &Node, b: &mut Block) {
    b.merkle_root = [0; 32];
    let _ = b.generate();
    let cv = b.generate_consensus_values(&node.blockchain, &node.storage, &node.cfg).await;
    let (pt, pg) = match node.blockchain.get_block(&b.previous_block_hash) {
        Some(p) => (p.treasury, p.graveyard),
        None => (0, 0),
    };
    b.total_fees_new = cv.total_fees_new;
    b.total_fees_atr = cv.total_fees_atr;
    b.total_fees_cumulative = cv.total_fees_cumulative;
    b.total_fees = cv.total_fees_new.wrapping_add(cv.total_fees_atr);
    b.avg_total_fees = cv.avg_total_fees;
    b.avg_total_fees_new = cv.avg_total_fees_new;
    b.avg_total_fees_atr = cv.avg_total_fees_atr;
    b.total_payout_routing = cv.total_payout_routing;
    b.total_payout_mining = cv.total_payout_mining;
    b.total_payout_treasury = cv.total_payout_treasury;
    b.total_payout_graveyard = cv.total_payout_graveyard;
    b.total_payout_atr = cv.total_payout_atr;
    b.avg_payout_routing = cv.avg_payout_routing;
    b.avg_payout_mining = cv.avg_payout_mining;
    b.avg_payout_treasury = cv.avg_payout_treasury;
    b.avg_payout_graveyard = cv.avg_payout_graveyard;
    b.avg_payout_atr = cv.avg_payout_atr;
    b.avg_fee_per_byte = cv.avg_fee_per_byte;
    b.fee_per_byte = cv.fee_per_byte;
    b.avg_nolan_rebroadcast_per_block = cv.avg_nolan_rebroadcast_per_block;
    b.burnfee = cv.burnfee;
    b.difficulty = cv.difficulty;
    b.treasury = pt.wrapping_add(cv.total_payout_treasury).wrapping_sub(cv.total_payout_atr);
    b.graveyard = pg.wrapping_add(cv.total_payout_graveyard);
}

/// a "new NFT" transaction: [Bound id, Normal payload, Bound tracker(0)] + change
pub fn nft_create(sim: &Sim, input: &Slip, payload: u64, change: u64, ts: u64) -> Transaction {
    let owner = sim.key_index(&input.public_key).unwrap();
    let mut uuid = [0u8; 33];
    uuid[0..8].copy_from_slice(&input.block_id.to_be_bytes());
    uuid[8..16].copy_from_slice(&input.tx_ordinal.to_be_bytes());
    uuid[16] = input.slip_index;
    raw_tx(
        TransactionType::Bound,
        vec![input.clone()],
        vec![
            slip_out(input.public_key, 1, SlipType::Bound),
            slip_out(input.public_key, payload, SlipType::Normal),
            slip_out(uuid, 0, SlipType::Bound),
            slip_out(input.public_key, change, SlipType::Normal),
        ],
        &sim.keys[owner].1,
        ts,
    )
}

/// re-seal a block after its transactions were edited (merkle root, hashes, signature)
pub fn reseal(b: &mut Block, sk: &SaitoPrivateKey) {
    b.merkle_root = [0; 32];
    let _ = b.generate();
    resign(b, sk);
}

// ------------------------------------------------------------------ simulation

#[derive(Clone, Debug, PartialEq)]
pub enum CreateOutcome {
    Ok,
    Err(String),
    Panic(String),
    NotCalled,
}

pub struct StepResult {
    pub add: Option<AddClass>,
    pub panic_msg: Option<String>,
}

pub struct Sim {
    pub node: Node,
    pub gp: u64,
    pub pab: u64,
    pub keys: Vec<(SaitoPublicKey, SaitoPrivateKey)>,
    pub int: Interner,
    /// accepted chain (pristine copies), index = id - 1
    pub chain: Vec<Block>,
    pub issued: u128,
    pub genesis_lit: String,
    pub gen_utxo_lit: String,
    pub steps: Vec<String>,
    pub dead: bool,
    /// original locations already consumed by a rebroadcast: (block, tx, slip)
    pub rebroadcast_seen: BTreeSet<(u64, u64, u8)>,
    pub log: Vec<String>,
}

impl Sim {
    pub async fn new(gp: u64, pab: u64, nkeys: u8, issuance: &[(usize, u64)], ts0: u64) -> Sim {
        let params = Params { genesis_period: gp, heartbeat: HEARTBEAT, prune_after_blocks: pab, ..Params::default() };
        let mut node = Node::new(&params, 1);
        let mut keys = vec![(node.pk, node.sk)];
        for k in 2..=nkeys {
            keys.push(keypair(k));
        }
        let iss: Vec<(SaitoPublicKey, u64)> = issuance.iter().map(|(k, a)| (keys[*k].0, *a)).collect();
        let g = make_genesis(&node, ts0, &iss).await.unwrap();
        let mut int = Interner::default();
        for (pk, _) in &keys {
            int.get(pk);
        }
        let genesis_lit = abs_block(&node, &g, &mut int);
        let r = node.add_block(g.clone()).await;
        assert_eq!(r, AddClass::OnChain, "genesis not accepted");
        let gen_utxo_lit = window_utxo(&node, &mut int);
        let issued = big_supply(&node).unwrap();
        Sim {
            node,
            gp,
            pab,
            keys,
            int,
            chain: vec![g],
            issued,
            genesis_lit,
            gen_utxo_lit,
            steps: vec![],
            dead: false,
            rebroadcast_seen: BTreeSet::new(),
            log: vec![],
        }
    }

    pub fn tip(&self) -> &Block {
        self.chain.last().unwrap()
    }

    pub fn key_index(&self, pk: &SaitoPublicKey) -> Option<usize> {
        self.keys.iter().position(|k| k.0 == *pk)
    }

    /// spendable slips of known keys that a transaction in the next block may use:
    /// inside the window and not in the block that the next block rebroadcasts
    pub fn spendable(&self) -> Vec<Slip> {
        let next = self.tip().id + 1;
        let lo = next.saturating_sub(self.gp); // blocks next-gp .. tip
        utxo_slips(&self.node)
            .into_iter()
            .filter(|s| s.block_id >= lo && s.amount > 0 && s.slip_type != SlipType::Bound && self.key_index(&s.public_key).is_some())
            .collect()
    }

    /// One step: Block::create was called (or not) with `gt`/`txs`, yielding `created`;
    /// `delivered` is offered to add_block. Records the Coq step, returns the verdict.
    pub async fn step(
        &mut self,
        ts: u64,
        gt: Option<Transaction>,
        txs: &[Transaction],
        create: CreateOutcome,
        created: Option<Block>,
        delivered: Option<Block>,
    ) -> StepResult {
        let parent_hash = self.tip().hash;
        // the transactions handed to Block::create: the golden ticket first, then the pooled ones in
        // the order the block carries them (hash-map drain order); pooled transactions that
        // Block::create left out (they spend an output the block rebroadcasts) come last
        let mut given: Vec<Transaction> = vec![];
        if let Some(g) = &gt {
            match &created {
                Some(b) if !b.transactions.is_empty() && b.transactions[0].signature == g.signature => given.push(b.transactions[0].clone()),
                _ => given.push(g.clone()),
            }
        }
        let pooled: Vec<Transaction> = txs
            .iter()
            .map(|t| {
                let mut t = t.clone();
                t.generate(&self.node.pk, 0, 0);
                t
            })
            .collect();
        match &created {
            Some(b) => {
                for t in &b.transactions {
                    if pooled.iter().any(|p| p.signature == t.signature) && !matches!(t.transaction_type, TransactionType::ATR | TransactionType::Fee) {
                        given.push(t.clone());
                    }
                }
                for p in &pooled {
                    if !b.transactions.iter().any(|t| t.signature == p.signature && !matches!(t.transaction_type, TransactionType::ATR | TransactionType::Fee)) {
                        given.push(p.clone());
                    }
                }
            }
            None => given.extend(pooled.iter().cloned()),
        }
        let create_code = match &create {
            CreateOutcome::Ok => 1,
            CreateOutcome::Err(_) => 0,
            CreateOutcome::Panic(_) => 9,
            CreateOutcome::NotCalled => 7,
        };
        let given_lit = abs_txs(&self.node, &given, &mut self.int);
        let orc_lit = abs_oracle(&self.node, &given, &parent_hash, &mut self.int);
        let bf = bf_calc(&self.node, &parent_hash, ts);
        let same = match (&created, &delivered) {
            (Some(c), Some(d)) => c.serialize_for_net(BlockType::Full) == d.serialize_for_net(BlockType::Full),
            _ => false,
        };
        let created_lit = match (&created, same) {
            (Some(_), true) => "CSame".to_string(),
            (Some(c), false) => format!("(CBlock ({}) {})", abs_hdr(c), abs_txs(&self.node, &c.transactions, &mut self.int)),
            (None, _) => "CNone".to_string(),
        };
        let delivered_lit = match &delivered {
            Some(d) => format!("(Some ({}))", abs_block(&self.node, d, &mut self.int)),
            None => "None".to_string(),
        };
        let mut res = StepResult { add: None, panic_msg: None };
        let mut add_code = 0;
        if let Some(d) = delivered.clone() {
            let r = futures_catch(AssertUnwindSafe(self.node.add_block(d.clone()))).await;
            match r {
                Ok(c) => {
                    add_code = match c {
                        AddClass::OnChain => 1,
                        AddClass::Invalid => 5,
                        _ => 6,
                    };
                    if c == AddClass::OnChain {
                        self.chain.push(d);
                    }
                    res.add = Some(c);
                }
                Err(m) => {
                    add_code = 9;
                    res.add = Some(AddClass::Panicked);
                    res.panic_msg = Some(m);
                    self.dead = true;
                }
            }
        }
        let utxo_lit = if add_code == 1 { window_utxo(&self.node, &mut self.int) } else { "[]".to_string() };
        self.steps.push(format!(
            "mkStep {} {} {} {} ({}) {} {} {} {} {}",
            ts,
            gal::boolean(gt.is_some()),
            given_lit,
            bf,
            orc_lit,
            create_code,
            created_lit,
            delivered_lit,
            add_code,
            utxo_lit
        ));
        res
    }

    /// honest step: build with the real Block::create and deliver the result
    pub async fn honest_step(&mut self, ts: u64, gt: Option<Transaction>, txs: &[Transaction]) -> (CreateOutcome, StepResult) {
        let parent_hash = self.tip().hash;
        let r = create_block(&self.node, parent_hash, ts, txs, gt.clone()).await;
        match r {
            Ok(Ok(b)) => {
                let sr = self.step(ts, gt, txs, CreateOutcome::Ok, Some(b.clone()), Some(b)).await;
                (CreateOutcome::Ok, sr)
            }
            Ok(Err(e)) => {
                let sr = self.step(ts, gt, txs, CreateOutcome::Err(e.clone()), None, None).await;
                (CreateOutcome::Err(e), sr)
            }
            Err(p) => {
                let sr = self.step(ts, gt, txs, CreateOutcome::Panic(p.clone()), None, None).await;
                (CreateOutcome::Panic(p), sr)
            }
        }
    }

    pub fn history_literal(&self) -> String {
        format!(
            "mkHistory {} {} {} ({}) {} {}",
            self.gp,
            self.pab,
            gal::boolean(dbg_profile()),
            self.genesis_lit,
            self.gen_utxo_lit,
            gal::list(&self.steps.iter().map(|s| format!("({})", s)).collect::<Vec<_>>())
        )
    }

    // -------------------------------------------------------------- expected ATR values (independent of the model)

    /// multiplier and per-transaction fee the code defines for the block after the tip
    pub fn atr_params(&self) -> (u128, u128) {
        let p = self.tip();
        let staked = self.gp as u128 * p.avg_nolan_rebroadcast_per_block as u128;
        let payout = if staked > 0 { p.treasury as u128 / staked } else { 0 };
        (1 + payout, p.avg_fee_per_byte as u128)
    }
    /// largest still-unspent output of the block that the next block rebroadcasts
    pub fn leaving_max_amount(&self) -> u128 {
        let next = self.tip().id + 1;
        if next <= self.gp + 1 {
            return 0;
        }
        match self.chain.iter().find(|b| b.id == next - self.gp - 1) {
            Some(e) => e
                .transactions
                .iter()
                .flat_map(|t| t.to.iter())
                .filter(|s| s.amount > 0 && self.node.blockchain.utxoset.get(&s.get_utxoset_key()).copied().unwrap_or(false))
                .map(|s| s.amount as u128)
                .max()
                .unwrap_or(0),
            None => 0,
        }
    }
    /// 5 % of the tip's treasury as the code computes it: the most the next block may pay out
    pub fn payout_limit(&self) -> u128 {
        (self.tip().treasury as f64 * 0.05) as u64 as u128
    }
}

// ------------------------------------------------------------------ C13 oracle

#[derive(Default, Debug)]
pub struct AtrReport {
    pub expiring_unspent: usize,
    pub rebroadcast: usize,
    pub dust: usize,
    pub triples: usize,
    pub capped: bool,
    /// 1 + limit / volume when the cap applies
    pub capped_factor: u128,
    /// what the multiplier asks the treasury to pay (before the cap)
    pub payout_asked: u128,
    /// NFT groups among the rebroadcast / too-small items
    pub triples_rebroadcast: usize,
    pub triples_dust: usize,
    pub failures: Vec<String>,
}

struct LeavingItem<'a> {
    payload: &'a Slip,
    group: Vec<&'a Slip>,
    triple: bool,
    fee: u128,
}

/// the still-unspent value outputs of the block that left the window, NFT groups together
fn leaving_items<'a>(e: &'a Block, utxo_before: &BTreeSet<Vec<u8>>, fpb: u128) -> Vec<LeavingItem<'a>> {
    let mut items = vec![];
    for tx in &e.transactions {
        let fee = tx.get_serialized_size() as u128 * fpb;
        let mut i = 0;
        while i < tx.to.len() {
            let s = &tx.to[i];
            // an NFT group: bound, payload, bound — travels together
            let triple = s.slip_type == SlipType::Bound
                && i + 2 < tx.to.len()
                && tx.to[i + 1].slip_type != SlipType::Bound
                && tx.to[i + 2].slip_type == SlipType::Bound;
            let (payload, group): (&Slip, Vec<&Slip>) =
                if triple { (&tx.to[i + 1], vec![&tx.to[i], &tx.to[i + 1], &tx.to[i + 2]]) } else { (s, vec![s]) };
            i += if triple { 3 } else { 1 };
            let unspent = group.iter().all(|g| g.amount == 0 || utxo_before.contains(&g.get_utxoset_key().to_vec()));
            if !unspent || payload.amount == 0 {
                continue;
            }
            if !triple && payload.slip_type == SlipType::Bound {
                // a stray bound slip carries no value
                continue;
            }
            items.push(LeavingItem { payload, group, triple, fee });
        }
    }
    items
}

/// Evaluates the C13 statement for the accepted block `b` (now the tip): `utxo_before` =
/// spendable entries before the block, `mult`/`fpb` = multiplier and fee per byte the
/// code defines (from the parent header), `limit` = 5 % of the parent's treasury (if the
/// payouts exceed it the code pays value * (1 + limit / volume) and waives the fee),
/// `e` = the block that left the window.
pub fn atr_oracle(
    sim: &mut Sim,
    b: &Block,
    e: Option<&Block>,
    utxo_before: &BTreeSet<Vec<u8>>,
    mult: u128,
    fpb: u128,
    limit: u128,
) -> AtrReport {
    let mut rep = AtrReport::default();
    let atrs: Vec<&Transaction> = b.transactions.iter().filter(|t| t.transaction_type == TransactionType::ATR).collect();
    let mut used = vec![false; atrs.len()];
    let utxo_after: BTreeSet<Vec<u8>> = sim.node.blockchain.utxoset.iter().filter(|(_, f)| **f).map(|(k, _)| k.to_vec()).collect();
    let mut expected_fees_atr: u128 = 0;
    let mut expected_pay_capped: u128 = 0;
    let items = match e {
        Some(e) => leaving_items(e, utxo_before, fpb),
        None => vec![],
    };
    // the cap: total payout against 5 % of the parent's treasury
    // value * multiplier and the sum of the payouts saturate at 2^64-1 (fix 812712b)
    let sat = |x: u128| x.min(u64::MAX as u128);
    let total_payout: u128 = sat(items.iter().filter(|it| sat(it.payload.amount as u128 * mult) > it.fee).map(|it| sat(it.payload.amount as u128 * mult) - it.payload.amount as u128).sum());
    let volume: u128 = items.iter().map(|it| it.payload.amount as u128).sum();
    let capped = total_payout > limit;
    let capped_mult = if capped && volume > 0 { 1 + limit / volume } else { 1 };
    if capped {
        rep.capped = true;
        rep.capped_factor = capped_mult;
    }
    rep.payout_asked = total_payout;
    let eid = e.map(|e| e.id).unwrap_or(0);
    for it in &items {
        let (payload, group, triple, fee) = (it.payload, &it.group, it.triple, it.fee);
        rep.expiring_unspent += 1;
        if triple {
            rep.triples += 1;
        }
        let a = payload.amount as u128;
        let loc = (payload.block_id, payload.tx_ordinal, payload.slip_index);
        let desc = format!("output {}:{}:{} amount {} of block {}", loc.0, loc.1, loc.2, a, eid);
        // matching rebroadcast transactions: an input at the original location
        let hits: Vec<usize> = atrs
            .iter()
            .enumerate()
            .filter(|(_, t)| t.from.iter().any(|f| (f.block_id, f.tx_ordinal, f.slip_index) == loc && f.slip_type != SlipType::Bound))
            .map(|(k, _)| k)
            .collect();
        if sat(a * mult) > fee {
            if hits.len() != 1 {
                rep.failures.push(format!("{} is handled by {} rebroadcast transactions", desc, hits.len()));
            } else {
                let t = atrs[hits[0]];
                used[hits[0]] = true;
                rep.rebroadcast += 1;
                if triple {
                    rep.triples_rebroadcast += 1;
                    let ok = t.from.len() == 3
                        && t.to.len() == 3
                        && t.to[0].slip_type == SlipType::Bound
                        && t.to[2].slip_type == SlipType::Bound
                        && t.to[0].public_key == group[0].public_key
                        && t.to[0].amount == group[0].amount
                        && t.to[2].public_key == group[2].public_key
                        && t.to[2].amount == group[2].amount;
                    if !ok {
                        rep.failures.push(format!("the NFT group of {} does not travel together (rebroadcast has {} inputs, {} outputs)", desc, t.from.len(), t.to.len()));
                    }
                }
                let expected = if capped { a * capped_mult } else { sat(a * mult) - fee };
                let out: Vec<&Slip> = t.to.iter().filter(|o| o.slip_type == SlipType::ATR).collect();
                if out.len() != 1 || out[0].public_key != payload.public_key {
                    rep.failures.push(format!("{} does not reappear for the same owner", desc));
                } else if out[0].amount as u128 != expected {
                    rep.failures.push(if capped {
                        format!(
                            "{} reappears with {} instead of value * (1 + limit/volume) = {} * (1 + {}/{}) = {} (payouts {} exceed 5 % of the treasury: fee waived)",
                            desc, out[0].amount, a, limit, volume, expected, total_payout
                        )
                    } else {
                        format!("{} reappears with {} instead of value*multiplier - fee = {}*{} - {} = {}", desc, out[0].amount, a, mult, fee, expected)
                    });
                }
                if !capped {
                    expected_fees_atr += fee;
                } else {
                    expected_pay_capped += a * capped_mult - a;
                }
                if !sim.rebroadcast_seen.insert(loc) {
                    rep.failures.push(format!("{} is rebroadcast a second time", desc));
                }
            }
            // the original must not be spendable any more
            for g in group {
                if g.amount > 0 && utxo_after.contains(&g.get_utxoset_key().to_vec()) {
                    rep.failures.push(format!("original of {} is still spendable after its rebroadcast", desc));
                }
            }
        } else {
            rep.dust += 1;
            if triple {
                rep.triples_dust += 1;
            }
            if !hits.is_empty() {
                rep.failures.push(format!("{} is too small to pay the fee but is rebroadcast", desc));
            }
            expected_fees_atr += a;
            // can it still be spent? ask the real Transaction::validate (as pool and block validation do)
            if let Some(owner) = sim.key_index(&payload.public_key) {
                let mut spend = make_tx(&[payload.clone()], &[(payload.public_key, payload.amount)], &sim.keys[owner].1, b.timestamp + 1);
                spend.generate(&sim.node.pk, 0, 0);
                let ok = std::panic::catch_unwind(AssertUnwindSafe(|| spend.validate(&sim.node.blockchain.utxoset, &sim.node.blockchain, true))).unwrap_or(false);
                if ok {
                    rep.failures.push(format!("{}: its value was collected as fees but a transaction spending it still validates", desc));
                }
            }
        }
    }
    for (k, u) in used.iter().enumerate() {
        if !u {
            rep.failures.push(format!(
                "rebroadcast transaction #{} of block {} (inputs {:?}) rebroadcasts nothing that left the window unspent",
                k,
                b.id,
                atrs[k].from.iter().map(|f| (f.block_id, f.tx_ordinal, f.slip_index, f.amount)).collect::<Vec<_>>()
            ));
        }
    }
    let expected_pay = if capped { expected_pay_capped } else { total_payout };
    if b.total_payout_atr as u128 != expected_pay {
        rep.failures.push(format!(
            "block {} takes {} out of the treasury for rebroadcast payouts, expected {} ({})",
            b.id,
            b.total_payout_atr,
            expected_pay,
            if capped { "payout cap: sum of value * limit/volume over the rebroadcast outputs" } else { "sum of value * (multiplier - 1) over the rebroadcast outputs" }
        ));
    }
    if b.total_fees_atr as u128 != expected_fees_atr {
        rep.failures.push(format!(
            "block {} collects {} as rebroadcast fees, expected {} ({})",
            b.id,
            b.total_fees_atr,
            expected_fees_atr,
            if capped { "payout cap: only the value of the too-small outputs" } else { "fees of rebroadcast outputs + value of the too-small ones" }
        ));
    }
    rep
}

pub fn spendable_keys(sim: &Sim) -> BTreeSet<Vec<u8>> {
    sim.node.blockchain.utxoset.iter().filter(|(_, f)| **f).map(|(k, _)| k.to_vec()).collect()
}

/// an honest step (real Block::create, result delivered) with the C13 oracle evaluated on the
/// accepted block; the report is None when the block was not accepted
pub async fn atr_checked_step(sim: &mut Sim, ts: u64, gt: Option<Transaction>, txs: &[Transaction]) -> (CreateOutcome, StepResult, Option<AtrReport>, u128) {
    let before = spendable_keys(sim);
    let (mult, fpb) = sim.atr_params();
    let limit = sim.payout_limit();
    let next_id = sim.tip().id + 1;
    let e = if next_id > sim.gp + 1 { sim.chain.iter().find(|b| b.id == next_id - sim.gp - 1).cloned() } else { None };
    let (co, sr) = sim.honest_step(ts, gt, txs).await;
    let rep = match (&co, &sr.add) {
        (CreateOutcome::Ok, Some(AddClass::OnChain)) => {
            let b = sim.tip().clone();
            Some(atr_oracle(sim, &b, e.as_ref(), &before, mult, fpb, limit))
        }
        _ => None,
    };
    (co, sr, rep, mult)
}

/// which branches of the rebroadcast section the accepted blocks of a scenario went through
#[derive(Default, Debug, Clone)]
pub struct Branches {
    /// multiplier >= 2, payouts within 5 % of the treasury: total_payout_atr > 0 without the cap
    pub uncapped_positive: usize,
    /// cap applied
    pub capped: usize,
    /// cap applied with an adjusted factor 1 + limit/volume >= 2 (the cap itself pays out)
    pub capped_factor2: usize,
    /// an NFT group rebroadcast under the cap
    pub capped_nft: usize,
    /// an NFT group rebroadcast with a positive payout, no cap
    pub uncapped_nft: usize,
    /// an NFT group whose payload is too small to pay the fee
    pub nft_dust: usize,
    pub blocks: usize,
}

impl Branches {
    pub fn note(&mut self, b: &Block, rep: &AtrReport, mult: u128) {
        self.blocks += 1;
        if rep.capped {
            self.capped += 1;
            if rep.capped_factor >= 2 && rep.rebroadcast > 0 {
                self.capped_factor2 += 1;
            }
            if rep.triples_rebroadcast > 0 {
                self.capped_nft += 1;
            }
        } else if mult >= 2 && b.total_payout_atr > 0 {
            self.uncapped_positive += 1;
            if rep.triples_rebroadcast > 0 {
                self.uncapped_nft += 1;
            }
        }
        if rep.triples_dust > 0 {
            self.nft_dust += 1;
        }
    }
    pub fn missing(&self) -> Vec<&'static str> {
        let mut v = vec![];
        if self.uncapped_positive == 0 {
            v.push("multiplier >= 2 with total_payout_atr > 0 and no cap");
        }
        if self.capped_factor2 == 0 {
            v.push("5 % cap with adjusted factor >= 2");
        }
        if self.capped_nft == 0 {
            v.push("NFT group rebroadcast under the 5 % cap");
        }
        if self.uncapped_nft == 0 {
            v.push("NFT group rebroadcast with a positive payout without the cap");
        }
        if self.nft_dust == 0 {
            v.push("NFT group whose payload is too small to pay the rebroadcast fee");
        }
        v
    }
}

pub const PAYOUT_ISS: &[(usize, u64)] = &[(0, 3_000_000), (1, 3_000), (2, 5)];
pub const PAYOUT_BLOCKS: usize = 40;
/// the golden tickets of the scenario name the producer (key 0), so that every payout returns to
/// the key that sweeps its outputs each block: the only outputs that leave the window are the placed ones
pub const PAYOUT_MINER: usize = 0;

/// Block k (0-based, block id k + 2) of the deterministic scenario `atr-payout-positive`
/// (genesis period 3).  Blocks 2..21 pay large fees (the treasury fills; an NFT group with a
/// payload of 1_000 leaves the window while the fee per byte is large: dust); afterwards the fees
/// are tiny (the fee per byte decays).  Outputs for key 3 and NFT groups are then placed so that
///   - a large volume (60_000) leaves the window first (multiplier 1, the average volume jumps),
///   - a small volume with an NFT group leaves in the next block: multiplier >= 2, payouts within
///     5 % of the treasury (total_payout_atr > 0 without the cap),
///   - four blocks later the rebroadcast copies leave again while the average has decayed: the cap
///     applies, for the small ones with an adjusted factor 1 + limit/volume >= 2, NFT group included.
pub fn payout_scenario_txs(sim: &Sim, k: usize, ts: u64) -> Vec<Transaction> {
    let fee: u64 = if k < 20 { 50_000 } else { 7 };
    let mut sp: Vec<_> = sim.spendable().into_iter().filter(|s| s.public_key == sim.keys[0].0 && s.slip_type != SlipType::Bound).collect();
    sp.sort_by_key(|s| std::cmp::Reverse(s.amount));
    sp.truncate(24);
    let mut txs = vec![];
    let extras: Vec<(usize, u64)> = match k {
        27 => vec![(1, 2_100)],
        28 => vec![(3, 60_000)],
        29 => vec![(3, 500)],
        _ => vec![],
    };
    let have: u64 = sp.iter().map(|s| s.amount).sum();
    let total: u64 = extras.iter().map(|x| x.1).sum::<u64>() + fee;
    if !sp.is_empty() && have > total + 100_000 {
        let mut outs = vec![(sim.keys[0].0, have - total)];
        for (key, a) in &extras {
            outs.push((sim.keys[*key].0, *a));
        }
        txs.push(make_tx(&sp, &outs, &sim.keys[0].1, ts));
    }
    let nft = |payload: u64, input_amount: u64| -> Option<Transaction> {
        let inp = sim.spendable().into_iter().find(|s| s.public_key == sim.keys[1].0 && s.slip_type == SlipType::Normal && s.amount == input_amount)?;
        Some(nft_create(sim, &inp, payload, inp.amount - payload - 10, ts))
    };
    match k {
        0 => txs.extend(nft(1_000, 3_000)),
        29 => txs.extend(nft(1_000, 2_100)),
        _ => {}
    }
    txs
}

/// A fork across the window edge with the C13 oracle.  Twin nodes A and B share blocks 2..k-1
/// (k > genesis_period + 2, so every block from here on rebroadcasts).  A adds its own block k
/// spending an output of block k - gp (the block that block k + 1 examines); B builds a competing
/// block k that leaves that output alone and spends another one, and a block k + 1 that
/// rebroadcasts it.  Both are delivered to A, which reorganises.  On A afterwards: supply,
/// in-window utxo set equal to B's, the originals rebroadcast by the winning blocks unspendable,
/// their new outputs spendable, the outputs of the losing block gone; then A builds block k + 2
/// (C13 oracle on it), which B must accept as well.  B's linear history goes to the model.
pub async fn fork_history_atr(hrng: &mut Rng, gp: u64, case: usize) -> (Sim, String, Vec<String>, String) {
    fork_history_atr_deep(hrng, gp, 8, 0, case).await
}

/// the same with `extra` more blocks on either branch (fork depth 1 + extra on the losing side) and a
/// chosen prune_after_blocks: with prune_after_blocks < depth the reorganisation unwinds blocks whose
/// transactions were already dropped from memory
pub async fn fork_history_atr_deep(hrng: &mut Rng, gp: u64, pab: u64, extra: usize, case: usize) -> (Sim, String, Vec<String>, String) {
    let nkeys = 4u8;
    let issuance = gen_issuance(hrng, nkeys, false);
    let mut a = Sim::new(gp, pab, nkeys, &issuance, 1_000_000).await;
    let mut b = Sim::new(gp, pab, nkeys, &issuance, 1_000_000).await;
    let shared = (gp + 2 + hrng.below(gp + 3)) as usize;
    let desc = format!(
        "{{\"case\":{},\"kind\":\"fork\",\"genesis_period\":{},\"prune_after_blocks\":{},\"fork_depth\":{},\"shared_blocks\":{},\"issuance\":{:?}}}",
        case,
        gp,
        pab,
        1 + extra,
        shared,
        issuance.iter().map(|(k, a)| vec![*k as u64, *a]).collect::<Vec<_>>()
    );
    let mut fails: Vec<String> = vec![];
    let mut ok = true;
    for i in 0..shared {
        let ts = a.tip().timestamp + 2 * HEARTBEAT + hrng.below(5000);
        let spendable = a.spendable();
        let mut txs = vec![];
        // young outputs only, so that old ones are left to be rebroadcast; two payments per block
        let young: Vec<_> = spendable.iter().filter(|s| s.block_id + 1 >= a.tip().id).cloned().collect();
        for j in 0..2usize {
            if young.len() > j {
                let k = (hrng.below(young.len() as u64) as usize + j) % young.len();
                if txs.iter().all(|t: &Transaction| t.from[0].get_utxoset_key() != young[k].get_utxoset_key()) {
                    txs.push(gen_payment(&a, hrng, &young[k], if i % 2 == 0 { 2 } else { 0 }, false, ts));
                }
            }
        }
        let with_gt = want_gt(&a, hrng, txs.is_empty());
        let gt = if with_gt {
            let parent = a.tip().clone();
            Some(gt_tx_for(&a.node, &parent, a.keys[1].0, i as u64 * 17 + case as u64).await)
        } else {
            None
        };
        let (co, sr, rep, _m) = atr_checked_step(&mut a, ts, gt.clone(), &txs).await;
        if co != CreateOutcome::Ok || sr.add != Some(AddClass::OnChain) {
            fails.push(format!("honest block {} was not accepted: create {:?}, add {:?}", a.tip().id + 1, co, sr.add));
            ok = false;
            break;
        }
        if let Some(rep) = rep {
            fails.extend(rep.failures);
        }
        let blk = a.tip().clone();
        let before = spendable_keys(&b);
        let (mult, fpb) = b.atr_params();
        let limit = b.payout_limit();
        let e = if blk.id > gp + 1 { b.chain.iter().find(|x| x.id == blk.id - gp - 1).cloned() } else { None };
        let sr2 = b.step(ts, gt, &txs, CreateOutcome::NotCalled, None, Some(blk.clone())).await;
        if sr2.add != Some(AddClass::OnChain) {
            fails.push("the same block is accepted by one node and not by its twin".to_string());
            ok = false;
            break;
        }
        // keeps B's record of rebroadcast originals complete
        let _ = atr_oracle(&mut b, &blk, e.as_ref(), &before, mult, fpb, limit);
    }
    let mut delivery = "not-reached".to_string();
    if ok {
        let k = a.tip().id + 1;
        // outputs of block k - gp still unspent: block k + 1 examines them
        let edge: Vec<Slip> = a.spendable().into_iter().filter(|s| s.block_id + gp == k).collect();
        let other: Vec<Slip> = a.spendable().into_iter().filter(|s| s.block_id + gp > k + 1).collect();
        let ts = a.tip().timestamp + 2 * HEARTBEAT + 700;
        let parent = a.tip().clone();
        // A: spends the edge output (if there is one)
        let txa = match edge.first().or(other.first()) {
            Some(s) => vec![gen_payment(&a, hrng, s, 2, false, ts)],
            None => vec![],
        };
        let gta = gt_tx_for(&a.node, &parent, a.keys[1].0, 901).await;
        let (_c, sra, repa, _m) = atr_checked_step(&mut a, ts, Some(gta), &txa).await;
        ok = sra.add == Some(AddClass::OnChain);
        if let Some(r) = repa {
            fails.extend(r.failures);
        }
        let losing = a.tip().clone();
        for j in 0..extra {
            if !ok {
                break;
            }
            let tsx = a.tip().timestamp + 2 * HEARTBEAT + 2600;
            let p = a.tip().clone();
            let gtx = gt_tx_for(&a.node, &p, a.keys[1].0, 920 + j as u64).await;
            let (_c, srx, repx, _m) = atr_checked_step(&mut a, tsx, Some(gtx), &[]).await;
            ok = srx.add == Some(AddClass::OnChain);
            if let Some(r) = repx {
                fails.extend(r.failures);
            }
        }
        // B: leaves the edge output alone
        let txb = match other.last() {
            Some(s) => vec![gen_payment(&b, hrng, s, 2, false, ts + 11)],
            None => vec![],
        };
        let gtb = gt_tx_for(&b.node, &parent, b.keys[2].0, 902).await;
        let (_c, srb, repb, _m) = atr_checked_step(&mut b, ts + 11, Some(gtb), &txb).await;
        ok = ok && srb.add == Some(AddClass::OnChain);
        if let Some(r) = repb {
            fails.extend(r.failures);
        }
        let mut edge_rebroadcast = false;
        if ok {
            // (the longer branch must also carry at least as much burn fee: its blocks follow each other faster)
            let ts2 = b.tip().timestamp + 2 * HEARTBEAT + if extra == 0 { 900 } else { 300 };
            let gt2 = if want_gt(&b, hrng, true) { let p = b.tip().clone(); Some(gt_tx_for(&b.node, &p, b.keys[2].0, 903).await) } else { None };
            let (_c, srb2, repb2, _m) = atr_checked_step(&mut b, ts2, gt2, &[]).await;
            ok = srb2.add == Some(AddClass::OnChain);
            if let Some(r) = repb2 {
                fails.extend(r.failures);
            }
            if let (true, Some(es)) = (ok, edge.first()) {
                edge_rebroadcast = b.tip().transactions.iter().any(|t| t.transaction_type == TransactionType::ATR && t.from.iter().any(|f| f.get_utxoset_key() == es.get_utxoset_key()));
            }
        }
        for j in 0..extra {
            if !ok {
                break;
            }
            let tsx = b.tip().timestamp + 2 * HEARTBEAT + 300;
            let p = b.tip().clone();
            let gtx = gt_tx_for(&b.node, &p, b.keys[2].0, 940 + j as u64).await;
            let (_c, srx, repx, _m) = atr_checked_step(&mut b, tsx, Some(gtx), &[]).await;
            ok = srx.add == Some(AddClass::OnChain);
            if let Some(r) = repx {
                fails.extend(r.failures);
            }
        }
        if ok {
            let n = b.chain.len();
            let branch: Vec<Block> = b.chain[n - 2 - extra..].to_vec();
            let (bk, bk1) = (branch[0].clone(), branch[1].clone());
            // every block of the competing branch but the last is stored as a side block; the last one makes
            // the branch longer and triggers the reorganisation
            let mut r1 = Ok(AddClass::OffChain);
            for blk in &branch[..branch.len() - 1] {
                let r = futures_catch(AssertUnwindSafe(a.node.add_block(blk.clone()))).await;
                if r != Ok(AddClass::OffChain) {
                    r1 = r;
                }
            }
            let r2 = futures_catch(AssertUnwindSafe(a.node.add_block(branch[branch.len() - 1].clone()))).await;
            delivery = format!("{:?}/{:?}:edge-output-{}", r1.clone().map(|c| c.code()), r2.clone().map(|c| c.code()), if edge.is_empty() { "none" } else if edge_rebroadcast { "rebroadcast-by-winner" } else { "dust-or-spent" });
            match (r1, r2) {
                (Ok(AddClass::OffChain), Ok(AddClass::OnChain)) => {
                    let sa = std::panic::catch_unwind(AssertUnwindSafe(|| big_supply(&a.node))).ok().flatten();
                    if sa != Some(a.issued) {
                        fails.push(format!("after the reorganisation the supply is {:?} but {} was issued", sa, a.issued));
                    }
                    let mut ia = Interner::default();
                    let mut ib = Interner::default();
                    if window_utxo(&a.node, &mut ia) != window_utxo(&b.node, &mut ib) {
                        fails.push("after the reorganisation the in-window utxo set differs from the one of a node that only saw the winning chain".to_string());
                    }
                    let live = spendable_keys(&a);
                    let mut winner_outputs: BTreeSet<Vec<u8>> = BTreeSet::new();
                    for blk in [&bk, &bk1] {
                        for t in blk.transactions.iter().filter(|t| t.transaction_type == TransactionType::ATR) {
                            for f in t.from.iter().filter(|f| f.amount > 0) {
                                if live.contains(&f.get_utxoset_key().to_vec()) {
                                    fails.push(format!("after the reorganisation the original {}:{}:{} ({}) of a rebroadcast in block {} is still spendable", f.block_id, f.tx_ordinal, f.slip_index, f.amount, blk.id));
                                }
                            }
                            for o in t.to.iter().filter(|o| o.amount > 0) {
                                winner_outputs.insert(o.get_utxoset_key().to_vec());
                                if !live.contains(&o.get_utxoset_key().to_vec()) {
                                    fails.push(format!("after the reorganisation the rebroadcast output {}:{}:{} ({}) of block {} is not spendable", o.block_id, o.tx_ordinal, o.slip_index, o.amount, blk.id));
                                }
                            }
                        }
                    }
                    for t in losing.transactions.iter() {
                        for o in t.to.iter().filter(|o| o.amount > 0) {
                            let key = o.get_utxoset_key().to_vec();
                            let in_winner = bk.transactions.iter().any(|t2| t2.to.iter().any(|o2| o2.get_utxoset_key().to_vec() == key));
                            if !in_winner && live.contains(&key) {
                                fails.push(format!("after the reorganisation output {}:{}:{} ({}) of the abandoned block {} is still spendable", o.block_id, o.tx_ordinal, o.slip_index, o.amount, losing.id));
                            }
                        }
                    }
                    // A goes on from the winning tip until the blocks of the fork height have left the window
                    // (blocks k + 2 .. k + gp + 3): C13 oracle on every block — the outputs of the WINNING block k
                    // must be the ones that are rebroadcast at k + gp + 1, although the abandoned block was stored
                    // first at that height — and B, which only saw the winning chain, must accept each of them
                    for _ in 0..(1 + extra) {
                        a.chain.pop();
                    }
                    for blk in &branch {
                        a.chain.push(blk.clone());
                    }
                    if a.node.blockchain.get_latest_block_hash() != a.tip().hash {
                        fails.push(format!("after the longer branch was delivered the node's tip is block {}, not the tip {} of that branch", a.node.blockchain.get_latest_block_id(), a.tip().id));
                    }
                    a.rebroadcast_seen = b.rebroadcast_seen.clone();
                    for j in 0..(gp + 2) {
                        let ts3 = a.tip().timestamp + 2 * HEARTBEAT + 500;
                        let gt3 = if want_gt(&a, hrng, true) { let p = a.tip().clone(); Some(gt_tx_for(&a.node, &p, a.keys[1].0, 904 + j).await) } else { None };
                        let (co3, sr3, rep3, _m) = atr_checked_step(&mut a, ts3, gt3.clone(), &[]).await;
                        if co3 != CreateOutcome::Ok || sr3.add != Some(AddClass::OnChain) {
                            fails.push(format!("after the reorganisation the node cannot extend the winning chain (block {}): create {:?}, add {:?} {}", a.tip().id + 1, co3, sr3.add, sr3.panic_msg.clone().unwrap_or_default()));
                            break;
                        }
                        if let Some(r) = rep3 {
                            fails.extend(r.failures);
                        }
                        let sup = std::panic::catch_unwind(AssertUnwindSafe(|| big_supply(&a.node))).ok().flatten();
                        if sup != Some(a.issued) {
                            fails.push(format!("after block {} (built on the chain the node reorganised onto) the supply is {:?} but {} was issued", a.tip().id, sup, a.issued));
                        }
                        let blk = a.tip().clone();
                        let sr4 = b.step(ts3, gt3, &[], CreateOutcome::NotCalled, None, Some(blk.clone())).await;
                        if sr4.add != Some(AddClass::OnChain) {
                            fails.push(format!("block {} built after the reorganisation is not accepted by a node that only saw the winning chain: {:?}", blk.id, sr4.add));
                            break;
                        }
                    }
                }
                (r1, r2) => {
                    fails.push(format!("fork delivery: the node does not follow the longer valid branch ({} blocks against {}): side blocks {:?}, the block that makes the branch longer {:?} (expected off-chain, then on-chain); its tip is block {}", 2 + extra, 1 + extra, r1, r2, a.node.blockchain.get_latest_block_id()));
                }
            }
        } else {
            fails.push("coverage: the fork history could not be built (a branch block was not accepted)".to_string());
        }
    }
    (b, desc, fails, delivery)
}

/// A reorganisation attempt at the height whose block sits in slot 0 of the block ring (id a multiple
/// of 2 * genesis_period, chain longer than the ring): the node has block h; a competing block h' —
/// the honest competitor plus a signed transaction spending an output that never existed (inputs =
/// outputs, so every header field stays right) — arrives as a side block, its child h'+1 (built on the
/// side block by the real Block::create) triggers the reorganisation.  The first block of the new
/// branch is invalid: the node must refuse, stay on block h, supply and utxo set unchanged.
pub async fn slot0_reorg_history(hrng: &mut Rng, gp: u64, case: usize) -> (Sim, String, Vec<String>, String) {
    let nkeys = 4u8;
    let issuance = gen_issuance(hrng, nkeys, false);
    let mut a = Sim::new(gp, 8, nkeys, &issuance, 1_000_000).await;
    let h = 4 * gp; // ring size 2 * gp: block h sits in slot 0 and the ring has wrapped
    let desc = format!(
        "{{\"case\":{},\"kind\":\"reorg-at-ring-slot-0\",\"genesis_period\":{},\"fork_height\":{},\"issuance\":{:?}}}",
        case,
        gp,
        h,
        issuance.iter().map(|(k, a)| vec![*k as u64, *a]).collect::<Vec<_>>()
    );
    let mut fails: Vec<String> = vec![];
    let mut outcome = "not-reached".to_string();
    let mut competitor: Option<Block> = None;
    let mut ok = true;
    while a.tip().id < h {
        let id = a.tip().id + 1;
        let ts = a.tip().timestamp + 2 * HEARTBEAT + hrng.below(5000);
        let spendable = a.spendable();
        let young: Vec<_> = spendable.iter().filter(|s| s.block_id + 1 >= a.tip().id).cloned().collect();
        let mut txs = vec![];
        if !young.is_empty() {
            let k = hrng.below(young.len() as u64) as usize;
            txs.push(gen_payment(&a, hrng, &young[k], 2, false, ts));
        }
        let with_gt = want_gt(&a, hrng, txs.is_empty());
        let gt = if with_gt {
            let parent = a.tip().clone();
            Some(gt_tx_for(&a.node, &parent, a.keys[1].0, id * 23 + case as u64).await)
        } else {
            None
        };
        if id == h {
            // the competitor is produced at the same tip, so that both blocks rebroadcast the same outputs
            let parent = a.tip().clone();
            let gtc = gt_tx_for(&a.node, &parent, a.keys[2].0, 977).await;
            match create_block(&a.node, parent.hash, ts + 7, &[], Some(gtc)).await {
                Ok(Ok(bc)) => competitor = Some(bc),
                other => {
                    fails.push(format!("Block::create failed on valid input: {:?}", other.map(|r| r.map(|b| b.id))));
                    ok = false;
                    break;
                }
            }
        }
        let (co, sr, rep, _m) = atr_checked_step(&mut a, ts, gt, &txs).await;
        if co != CreateOutcome::Ok || sr.add != Some(AddClass::OnChain) {
            fails.push(format!("honest block {} was not accepted: create {:?}, add {:?}", id, co, sr.add));
            ok = false;
            break;
        }
        if let Some(rep) = rep {
            fails.extend(rep.failures);
        }
        let sup = big_supply(&a.node);
        if sup != Some(a.issued) {
            fails.push(format!("after block {} the supply is {:?} but {} was issued", id, sup, a.issued));
        }
    }
    if let (true, Some(mut bad)) = (ok, competitor) {
        const MINT: u64 = 777_000_000;
        let mut input = Slip::default();
        input.public_key = a.keys[3].0;
        input.amount = MINT;
        input.block_id = h - 1;
        input.tx_ordinal = 0;
        input.slip_index = 9;
        let mut forged = raw_tx(TransactionType::Normal, vec![input], vec![slip_out(a.keys[3].0, MINT, SlipType::Normal)], &a.keys[3].1, bad.timestamp);
        forged.generate(&a.node.pk, 0, 0);
        bad.transactions.insert(1, forged);
        reseal(&mut bad, &a.keys[0].1);
        let before_supply = big_supply(&a.node);
        let mut ia = Interner::default();
        let before_utxo = window_utxo(&a.node, &mut ia);
        let tip_hash = a.tip().hash;
        let r1 = futures_catch(AssertUnwindSafe(a.node.add_block(bad.clone()))).await;
        let child = match create_block(&a.node, bad.hash, bad.timestamp + 2 * HEARTBEAT + 900, &[], None).await {
            Ok(Ok(c)) => Some(c),
            _ => {
                let gt = gt_tx_for(&a.node, &bad, a.keys[2].0, 978).await;
                create_block(&a.node, bad.hash, bad.timestamp + 2 * HEARTBEAT + 900, &[], Some(gt)).await.ok().and_then(|r| r.ok())
            }
        };
        match child {
            Some(c) => {
                let r2 = futures_catch(AssertUnwindSafe(a.node.add_block(c))).await;
                outcome = format!("{:?}/{:?}", r1.clone().map(|c| c.code()), r2.clone().map(|c| c.code()));
                if r1 != Ok(AddClass::OffChain) {
                    fails.push(format!("the competing block {} was not stored as a side block: {:?}", h, r1));
                }
                match r2 {
                    Ok(AddClass::Invalid) => {}
                    other => fails.push(format!("the child of a competing block {} that spends a non-existent output of 777_000_000 is not refused: {:?}", h, other)),
                }
                let sa = std::panic::catch_unwind(AssertUnwindSafe(|| big_supply(&a.node))).ok().flatten();
                if sa != before_supply {
                    fails.push(format!("after the refused reorganisation at block {} (ring slot 0) the supply is {:?}, before it was {:?} (issued {})", h, sa, before_supply, a.issued));
                }
                if a.node.blockchain.get_latest_block_hash() != tip_hash {
                    fails.push(format!("after the refused reorganisation the tip is block {} {}, not the block {} it had", a.node.blockchain.get_latest_block_id(), if a.node.blockchain.get_latest_block_id() == h { "(another one)" } else { "" }, h));
                }
                let mut ia2 = Interner::default();
                if std::panic::catch_unwind(AssertUnwindSafe(|| window_utxo(&a.node, &mut ia2))).ok() != Some(before_utxo) {
                    fails.push("after the refused reorganisation the in-window utxo set differs from the one before it".to_string());
                }
            }
            None => fails.push("coverage: the child of the competing side block could not be built".to_string()),
        }
    } else if ok {
        fails.push("coverage: the competing block was not built".to_string());
    }
    (a, desc, fails, outcome)
}

/// spendable entries older than the window (they can no longer be rebroadcast)
pub fn stale_entries(node: &Node) -> Vec<Slip> {
    let tip = node.blockchain.get_latest_block_id();
    let lo = tip.saturating_sub(node.params.genesis_period);
    utxo_slips(node).into_iter().filter(|s| s.block_id < lo).collect()
}

// ------------------------------------------------------------------ random histories

pub struct GenParams {
    pub gp: u64,
    pub pab: u64,
    pub nkeys: u8,
    pub blocks: usize,
    /// 0 = tiny fees, 1 = mixed, 2 = large fees (fee per byte > 0: dust exists)
    pub fee_mode: u64,
    pub hops: bool,
}

pub fn gen_issuance(rng: &mut Rng, nkeys: u8, big: bool) -> Vec<(usize, u64)> {
    let n = rng.range(5, 11) as usize;
    let mut v = vec![];
    for i in 0..n {
        let k = if i == 0 { 0 } else { rng.below(nkeys as u64) as usize };
        let amount = match rng.below(6) {
            0 => rng.range(1, 50),
            1 => rng.range(500, 5_000),
            2 => rng.range(20_000, 90_000),
            3 => rng.range(100_000, 900_000),
            _ => rng.range(1_000_000, 50_000_000),
        };
        let amount = if big && i < 2 { (1u64 << 61) + rng.below(1 << 40) } else { amount };
        v.push((k, amount));
    }
    v
}

/// a payment spending `input`: 1..3 outputs to random keys, fee per `fee_mode`
pub fn gen_payment(sim: &Sim, rng: &mut Rng, input: &Slip, fee_mode: u64, hops: bool, ts: u64) -> Transaction {
    let owner = sim.key_index(&input.public_key).unwrap();
    let a = input.amount;
    let fee = match (fee_mode, rng.below(4)) {
        (0, _) => rng.below(20).min(a),
        (1, 0) => 0,
        (1, 1) => rng.below(200).min(a),
        (1, _) => (a / rng.range(3, 40)).min(a),
        (_, 0) => rng.below(200).min(a),
        (_, _) => (a / rng.range(2, 12)).max(30_000.min(a)),
    };
    let rest = a - fee;
    let nout = rng.range(1, 3);
    let mut outs = vec![];
    let mut left = rest;
    for k in 0..nout {
        let amt = if k == nout - 1 { left } else { left / rng.range(2, 5) };
        left -= amt;
        let to = rng.below(sim.keys.len() as u64) as usize;
        outs.push((sim.keys[to].0, amt));
    }
    let mut tx = make_tx(&[input.clone()], &outs, &sim.keys[owner].1, ts);
    if hops && owner != 0 && rng.chance(1, 2) {
        // routed: sender -> (another key ->) the block producer
        if rng.chance(1, 3) && sim.keys.len() > 2 {
            let mid = 1 + (owner % (sim.keys.len() - 1));
            if mid != owner && mid != 0 {
                tx.add_hop(&sim.keys[owner].1, &sim.keys[owner].0, &sim.keys[mid].0);
                tx.add_hop(&sim.keys[mid].1, &sim.keys[mid].0, &sim.keys[0].0);
            } else {
                tx.add_hop(&sim.keys[owner].1, &sim.keys[owner].0, &sim.keys[0].0);
            }
        } else {
            tx.add_hop(&sim.keys[owner].1, &sim.keys[owner].0, &sim.keys[0].0);
        }
    }
    tx
}

/// golden-ticket policy: keeps the 2-in-6 density and a low difficulty
pub fn want_gt(sim: &Sim, rng: &mut Rng, force: bool) -> bool {
    let n = sim.chain.len();
    let recent: Vec<bool> = sim.chain[n.saturating_sub(5)..].iter().map(|b| b.has_golden_ticket).collect();
    let count = recent.iter().filter(|x| **x).count();
    let tip = sim.tip();
    if force {
        return true;
    }
    if n >= 4 && count < 2 {
        return true;
    }
    if tip.has_golden_ticket && tip.difficulty >= 8 {
        return false;
    }
    rng.chance(1, 2)
}

pub fn summarize_map(m: &BTreeMap<String, u64>) -> String {
    m.iter().map(|(k, v)| format!("{}={}", k, v)).collect::<Vec<_>>().join(",")
}
