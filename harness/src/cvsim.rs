//! Shared by c02.rs / c13.rs (included with #[path]): a real node (world.rs) driven block
//! by block; every step is recorded as a `CVRun.step` literal for the Coq model
//! (Block::create output, add_block verdict, in-window utxo set) and the direct oracles
//! of C02 (big-integer supply, no transaction pays out more than it consumes) and C13
//! (exactly-once rebroadcast at the window edge) are evaluated on the implementation.
#![allow(dead_code)]
use std::collections::{BTreeMap, BTreeSet};
use std::panic::AssertUnwindSafe;

use saito_core::core::consensus::block::{Block, BlockType};
use saito_core::core::consensus::burnfee::BurnFee;
use saito_core::core::consensus::golden_ticket::GoldenTicket;
use saito_core::core::consensus::slip::{Slip, SlipType};
use saito_core::core::consensus::transaction::{Transaction, TransactionType};
use saito_core::core::consensus::wallet::Wallet;
use saito_core::core::defs::{SaitoHash, SaitoPrivateKey, SaitoPublicKey};
use saito_core::core::util::crypto::{hash, verify_signature};
use verif_harness::chainsim::futures_catch;
use verif_harness::gal;
use verif_harness::rng::Rng;
use verif_harness::world::*;

pub const HEARTBEAT: u64 = 100;

pub fn dbg_profile() -> bool {
    cfg!(debug_assertions)
}

// ------------------------------------------------------------------ abstraction

pub fn abs_slip(s: &Slip, int: &mut Interner) -> String {
    format!(
        "mkSlip {} {} {} {} {} {}",
        int.get(&s.public_key),
        s.amount,
        s.slip_type as u8,
        s.block_id,
        s.tx_ordinal,
        s.slip_index
    )
}

pub fn abs_slips(v: &[Slip], int: &mut Interner) -> String {
    gal::list(&v.iter().map(|s| format!("({})", abs_slip(s, int))).collect::<Vec<_>>())
}

/// the verdict of Transaction::validate apart from the utxo lookups
pub fn static_ok(node: &Node, tx: &Transaction) -> bool {
    let t = tx.clone();
    std::panic::catch_unwind(AssertUnwindSafe(|| {
        t.validate(&node.blockchain.utxoset, &node.blockchain, false)
    }))
    .unwrap_or(false)
}

pub fn abs_tx(node: &Node, tx: &Transaction, int: &mut Interner) -> String {
    let ser = tx.serialize_for_net();
    format!(
        "mkTx {} {} {} {} {} {} {} {} {}",
        tx.transaction_type as u8,
        tx.timestamp,
        abs_slips(&tx.from, int),
        abs_slips(&tx.to, int),
        tx.data.len(),
        tx.path.len(),
        int.get(&tx.data),
        int.get(&ser),
        gal::boolean(static_ok(node, tx))
    )
}

pub fn abs_txs(node: &Node, txs: &[Transaction], int: &mut Interner) -> String {
    gal::list(&txs.iter().map(|t| format!("({})", abs_tx(node, t, int))).collect::<Vec<_>>())
}

pub fn abs_hdr(b: &Block) -> String {
    format!(
        "mkHdr {} {} {} {} {} {} {} {} {} {} {} {} {} {} {} {} {} {} {} {} {} {} {} {} {} {} {} {}",
        b.id,
        b.timestamp,
        b.treasury,
        b.graveyard,
        b.previous_block_unpaid,
        b.total_fees,
        b.total_fees_new,
        b.total_fees_atr,
        b.total_fees_cumulative,
        b.avg_total_fees,
        b.avg_total_fees_new,
        b.avg_total_fees_atr,
        b.total_payout_routing,
        b.total_payout_mining,
        b.total_payout_treasury,
        b.total_payout_graveyard,
        b.total_payout_atr,
        b.avg_payout_routing,
        b.avg_payout_mining,
        b.avg_payout_treasury,
        b.avg_payout_graveyard,
        b.avg_payout_atr,
        b.avg_fee_per_byte,
        b.fee_per_byte,
        b.avg_nolan_rebroadcast_per_block,
        b.burnfee,
        b.difficulty,
        gal::boolean(b.transactions.iter().any(|t| t.transaction_type == TransactionType::GoldenTicket))
    )
}

/// lottery winners as the real code computes them for a block on `parent`
pub fn lottery(node: &Node, txs: &[Transaction], parent_hash: &SaitoHash) -> ([u8; 33], [u8; 33], [u8; 33]) {
    let zero = [0u8; 33];
    let gt = txs.iter().rev().find(|t| t.transaction_type == TransactionType::GoldenTicket);
    let gt = match gt {
        Some(g) if g.data.len() == 97 => g,
        _ => return (zero, zero, zero),
    };
    let mut miner = [0u8; 33];
    miner.copy_from_slice(&gt.data[64..97]);
    let mut random = [0u8; 32];
    random.copy_from_slice(&gt.data[32..64]);
    let mut next = hash(&random);
    let (mut r1, mut r2) = (zero, zero);
    if let Some(prev) = node.blockchain.get_block(parent_hash) {
        r1 = std::panic::catch_unwind(AssertUnwindSafe(|| prev.find_winning_router(next))).unwrap_or(zero);
        next = hash(&next);
        next = hash(&next);
        if !prev.has_golden_ticket {
            if let Some(pp) = node.blockchain.get_block(&prev.previous_block_hash) {
                r2 = std::panic::catch_unwind(AssertUnwindSafe(|| pp.find_winning_router(next))).unwrap_or(zero);
            }
        }
    }
    (miner, r1, r2)
}

pub fn abs_oracle(node: &Node, txs: &[Transaction], parent_hash: &SaitoHash, int: &mut Interner) -> String {
    let (m, r1, r2) = lottery(node, txs, parent_hash);
    format!("mkOracle {} {} {}", int.get(&m), int.get(&r1), int.get(&r2))
}

pub fn bf_calc(node: &Node, parent_hash: &SaitoHash, ts: u64) -> u64 {
    match node.blockchain.get_block(parent_hash) {
        Some(p) => BurnFee::calculate_burnfee_for_block(p.burnfee, ts, p.timestamp, HEARTBEAT),
        None => 0,
    }
}

pub fn abs_block(node: &Node, b: &Block, int: &mut Interner) -> String {
    let parent = node.blockchain.get_block(&b.previous_block_hash);
    let work_ok = match parent {
        Some(p) => {
            b.total_work
                >= BurnFee::return_routing_work_needed_to_produce_block_in_nolan(p.burnfee, b.timestamp, p.timestamp, HEARTBEAT)
        }
        None => true,
    };
    let gt_ok = match (parent, b.transactions.iter().rev().find(|t| t.transaction_type == TransactionType::GoldenTicket)) {
        (Some(p), Some(g)) if g.data.len() == 97 => {
            let bytes = [&p.hash[..], &g.data[32..97]].concat();
            GoldenTicket::deserialize_from_net(&bytes).validate(p.difficulty)
        }
        _ => false,
    };
    let merkle_ok = b.merkle_root == b.generate_merkle_root(false, false);
    let sig_ok = verify_signature(&b.pre_hash, &b.signature, &b.creator);
    format!(
        "mkBlock ({}) {} {} ({}) {} {} {} {}",
        abs_hdr(b),
        abs_txs(node, &b.transactions, int),
        bf_calc(node, &b.previous_block_hash, b.timestamp),
        abs_oracle(node, &b.transactions, &b.previous_block_hash, int),
        gal::boolean(sig_ok),
        gal::boolean(work_ok),
        gal::boolean(gt_ok),
        gal::boolean(merkle_ok)
    )
}

/// spendable entries of the real utxo set as slips, canonical order (bid, ord, idx, amt, ty, pk)
pub fn utxo_slips(node: &Node) -> Vec<Slip> {
    let mut v: Vec<Slip> = node
        .blockchain
        .utxoset
        .iter()
        .filter(|(_, f)| **f)
        .map(|(k, _)| Slip::parse_slip_from_utxokey(k).unwrap())
        .collect();
    v.sort_by_key(|s| (s.block_id, s.tx_ordinal, s.slip_index, s.amount, s.slip_type as u8, s.public_key));
    v
}

pub fn window_utxo(node: &Node, int: &mut Interner) -> String {
    let tip = node.blockchain.get_latest_block_id();
    let lo = tip.saturating_sub(node.params.genesis_period);
    let mut v: Vec<(u64, u64, u8, u64, u8, u64, Slip)> = utxo_slips(node)
        .into_iter()
        .filter(|s| s.block_id >= lo)
        .map(|s| (s.block_id, s.tx_ordinal, s.slip_index, s.amount, s.slip_type as u8, int.get(&s.public_key), s))
        .collect();
    // the model orders by the interned key
    v.sort_by_key(|t| (t.0, t.1, t.2, t.3, t.4, t.5));
    let slips: Vec<Slip> = v.into_iter().map(|t| t.6).collect();
    abs_slips(&slips, int)
}

// ------------------------------------------------------------------ oracles on the implementation

/// big-integer supply of the node's state: in-window spendable non-Bound outputs + reservoirs of the tip
pub fn big_supply(node: &Node) -> Option<u128> {
    let tip = node.blockchain.get_latest_block()?;
    let lo = tip.id.saturating_sub(node.params.genesis_period);
    let mut s: u128 = 0;
    for sl in utxo_slips(node) {
        if sl.slip_type == SlipType::Bound || sl.block_id < lo {
            continue;
        }
        s += sl.amount as u128;
    }
    Some(s + tip.treasury as u128 + tip.graveyard as u128 + tip.previous_block_unpaid as u128 + tip.total_fees as u128)
}

pub fn big_in_out(tx: &Transaction) -> (u128, u128) {
    let f = |v: &Vec<Slip>| v.iter().filter(|s| s.slip_type != SlipType::Bound).map(|s| s.amount as u128).sum::<u128>();
    (f(&tx.from), f(&tx.to))
}

// ------------------------------------------------------------------ builders

pub fn slip_out(pk: SaitoPublicKey, amount: u64, ty: SlipType) -> Slip {
    let mut o = Slip::default();
    o.public_key = pk;
    o.amount = amount;
    o.slip_type = ty;
    o
}

pub fn raw_tx(ty: TransactionType, from: Vec<Slip>, to: Vec<Slip>, sk: &SaitoPrivateKey, ts: u64) -> Transaction {
    let mut tx = Transaction::default();
    tx.transaction_type = ty;
    tx.timestamp = ts;
    for mut s in from {
        s.generate_utxoset_key();
        tx.add_from_slip(s);
    }
    for s in to {
        tx.add_to_slip(s);
    }
    tx.sign(sk);
    tx
}

/// golden ticket for `parent` naming `miner` (may be the all-zero key), signed by the node
pub async fn gt_tx_for(node: &Node, parent: &Block, miner: SaitoPublicKey, seed: u64) -> Transaction {
    let gt = mine_golden_ticket(parent.hash, parent.difficulty, miner, seed);
    let mut t = Wallet::create_golden_ticket_transaction(gt, &node.pk, &node.sk).await;
    t.generate(&node.pk, 0, 0);
    t
}

/// the real Block::create on the node's tip state
pub async fn create_block(
    node: &Node,
    parent_hash: SaitoHash,
    ts: u64,
    txs: &[Transaction],
    gt: Option<Transaction>,
) -> Result<Result<Block, String>, String> {
    let fut = async {
        let mut map = fixed_tx_map();
        for tx in txs {
            let mut tx = tx.clone();
            tx.generate(&node.pk, 0, 0);
            map.insert(tx.signature, tx);
        }
        let r = Block::create(&mut map, parent_hash, &node.blockchain, ts, &node.pk, &node.sk, gt, &node.cfg, &node.storage).await;
        match r {
            Ok(mut b) => {
                let _ = b.generate();
                b.sign(&node.sk);
                let _ = b.generate();
                Ok(b)
            }
            Err(e) => Err(format!("{:?}", e)),
        }
    };
    futures_catch(AssertUnwindSafe(fut)).await
}

/// After the transactions of a block were edited by an attacker: make the header consistent
/// with them the way Block::create would (the real generate_consensus_values says what to put)
pub async fn refill_header(node: &Node, b: &mut Block) {
    b.merkle_root = [0; 32];
    let _ = b.generate();
    let cv = b.generate_consensus_values(&node.blockchain, &node.storage, &node.cfg).await;
    let (pt, pg) = match node.blockchain.get_block(&b.previous_block_hash) {
        Some(p) => (p.treasury, p.graveyard),
        None => (0, 0),
    };
    b.total_fees_new = cv.total_fees_new;
    b.total_fees_atr = cv.total_fees_atr;
    b.total_fees_cumulative = cv.total_fees_cumulative;
    b.total_fees = cv.total_fees_new.wrapping_add(cv.total_fees_atr);
    b.avg_total_fees = cv.avg_total_fees;
    b.avg_total_fees_new = cv.avg_total_fees_new;
    b.avg_total_fees_atr = cv.avg_total_fees_atr;
    b.total_payout_routing = cv.total_payout_routing;
    b.total_payout_mining = cv.total_payout_mining;
    b.total_payout_treasury = cv.total_payout_treasury;
    b.total_payout_graveyard = cv.total_payout_graveyard;
    b.total_payout_atr = cv.total_payout_atr;
    b.avg_payout_routing = cv.avg_payout_routing;
    b.avg_payout_mining = cv.avg_payout_mining;
    b.avg_payout_treasury = cv.avg_payout_treasury;
    b.avg_payout_graveyard = cv.avg_payout_graveyard;
    b.avg_payout_atr = cv.avg_payout_atr;
    b.avg_fee_per_byte = cv.avg_fee_per_byte;
    b.fee_per_byte = cv.fee_per_byte;
    b.avg_nolan_rebroadcast_per_block = cv.avg_nolan_rebroadcast_per_block;
    b.burnfee = cv.burnfee;
    b.difficulty = cv.difficulty;
    b.treasury = pt.wrapping_add(cv.total_payout_treasury).wrapping_sub(cv.total_payout_atr);
    b.graveyard = pg.wrapping_add(cv.total_payout_graveyard);
}

/// a "new NFT" transaction: [Bound id, Normal payload, Bound tracker(0)] + change
pub fn nft_create(sim: &Sim, input: &Slip, payload: u64, change: u64, ts: u64) -> Transaction {
    let owner = sim.key_index(&input.public_key).unwrap();
    let mut uuid = [0u8; 33];
    uuid[0..8].copy_from_slice(&input.block_id.to_be_bytes());
    uuid[8..16].copy_from_slice(&input.tx_ordinal.to_be_bytes());
    uuid[16] = input.slip_index;
    raw_tx(
        TransactionType::Bound,
        vec![input.clone()],
        vec![
            slip_out(input.public_key, 1, SlipType::Bound),
            slip_out(input.public_key, payload, SlipType::Normal),
            slip_out(uuid, 0, SlipType::Bound),
            slip_out(input.public_key, change, SlipType::Normal),
        ],
        &sim.keys[owner].1,
        ts,
    )
}

/// re-seal a block after its transactions were edited (merkle root, hashes, signature)
pub fn reseal(b: &mut Block, sk: &SaitoPrivateKey) {
    b.merkle_root = [0; 32];
    let _ = b.generate();
    resign(b, sk);
}

// ------------------------------------------------------------------ simulation

#[derive(Clone, Debug, PartialEq)]
pub enum CreateOutcome {
    Ok,
    Err(String),
    Panic(String),
    NotCalled,
}

pub struct StepResult {
    pub add: Option<AddClass>,
    pub panic_msg: Option<String>,
}

pub struct Sim {
    pub node: Node,
    pub gp: u64,
    pub pab: u64,
    pub keys: Vec<(SaitoPublicKey, SaitoPrivateKey)>,
    pub int: Interner,
    /// accepted chain (pristine copies), index = id - 1
    pub chain: Vec<Block>,
    pub issued: u128,
    pub genesis_lit: String,
    pub gen_utxo_lit: String,
    pub steps: Vec<String>,
    pub dead: bool,
    /// original locations already consumed by a rebroadcast: (block, tx, slip)
    pub rebroadcast_seen: BTreeSet<(u64, u64, u8)>,
    pub log: Vec<String>,
}

impl Sim {
    pub async fn new(gp: u64, pab: u64, nkeys: u8, issuance: &[(usize, u64)], ts0: u64) -> Sim {
        let params = Params { genesis_period: gp, heartbeat: HEARTBEAT, prune_after_blocks: pab, ..Params::default() };
        let mut node = Node::new(&params, 1);
        let mut keys = vec![(node.pk, node.sk)];
        for k in 2..=nkeys {
            keys.push(keypair(k));
        }
        let iss: Vec<(SaitoPublicKey, u64)> = issuance.iter().map(|(k, a)| (keys[*k].0, *a)).collect();
        let g = make_genesis(&node, ts0, &iss).await.unwrap();
        let mut int = Interner::default();
        for (pk, _) in &keys {
            int.get(pk);
        }
        let genesis_lit = abs_block(&node, &g, &mut int);
        let r = node.add_block(g.clone()).await;
        assert_eq!(r, AddClass::OnChain, "genesis not accepted");
        let gen_utxo_lit = window_utxo(&node, &mut int);
        let issued = big_supply(&node).unwrap();
        Sim {
            node,
            gp,
            pab,
            keys,
            int,
            chain: vec![g],
            issued,
            genesis_lit,
            gen_utxo_lit,
            steps: vec![],
            dead: false,
            rebroadcast_seen: BTreeSet::new(),
            log: vec![],
        }
    }

    pub fn tip(&self) -> &Block {
        self.chain.last().unwrap()
    }

    pub fn key_index(&self, pk: &SaitoPublicKey) -> Option<usize> {
        self.keys.iter().position(|k| k.0 == *pk)
    }

    /// spendable slips of known keys that a transaction in the next block may use:
    /// inside the window and not in the block that the next block rebroadcasts
    pub fn spendable(&self) -> Vec<Slip> {
        let next = self.tip().id + 1;
        let lo = next.saturating_sub(self.gp); // blocks next-gp .. tip
        utxo_slips(&self.node)
            .into_iter()
            .filter(|s| s.block_id >= lo && s.amount > 0 && s.slip_type != SlipType::Bound && self.key_index(&s.public_key).is_some())
            .collect()
    }

    /// One step: Block::create was called (or not) with `gt`/`txs`, yielding `created`;
    /// `delivered` is offered to add_block. Records the Coq step, returns the verdict.
    pub async fn step(
        &mut self,
        ts: u64,
        gt: Option<Transaction>,
        txs: &[Transaction],
        create: CreateOutcome,
        created: Option<Block>,
        delivered: Option<Block>,
    ) -> StepResult {
        let parent_hash = self.tip().hash;
        // the transactions handed to Block::create: the golden ticket first, then the pooled ones in
        // the order the block carries them (hash-map drain order); pooled transactions that
        // Block::create left out (they spend an output the block rebroadcasts) come last
        let mut given: Vec<Transaction> = vec![];
        if let Some(g) = &gt {
            match &created {
                Some(b) if !b.transactions.is_empty() && b.transactions[0].signature == g.signature => given.push(b.transactions[0].clone()),
                _ => given.push(g.clone()),
            }
        }
        let pooled: Vec<Transaction> = txs
            .iter()
            .map(|t| {
                let mut t = t.clone();
                t.generate(&self.node.pk, 0, 0);
                t
            })
            .collect();
        match &created {
            Some(b) => {
                for t in &b.transactions {
                    if pooled.iter().any(|p| p.signature == t.signature) && !matches!(t.transaction_type, TransactionType::ATR | TransactionType::Fee) {
                        given.push(t.clone());
                    }
                }
                for p in &pooled {
                    if !b.transactions.iter().any(|t| t.signature == p.signature && !matches!(t.transaction_type, TransactionType::ATR | TransactionType::Fee)) {
                        given.push(p.clone());
                    }
                }
            }
            None => given.extend(pooled.iter().cloned()),
        }
        let create_code = match &create {
            CreateOutcome::Ok => 1,
            CreateOutcome::Err(_) => 0,
            CreateOutcome::Panic(_) => 9,
            CreateOutcome::NotCalled => 7,
        };
        let given_lit = abs_txs(&self.node, &given, &mut self.int);
        let orc_lit = abs_oracle(&self.node, &given, &parent_hash, &mut self.int);
        let bf = bf_calc(&self.node, &parent_hash, ts);
        let same = match (&created, &delivered) {
            (Some(c), Some(d)) => c.serialize_for_net(BlockType::Full) == d.serialize_for_net(BlockType::Full),
            _ => false,
        };
        let created_lit = match (&created, same) {
            (Some(_), true) => "CSame".to_string(),
            (Some(c), false) => format!("(CBlock ({}) {})", abs_hdr(c), abs_txs(&self.node, &c.transactions, &mut self.int)),
            (None, _) => "CNone".to_string(),
        };
        let delivered_lit = match &delivered {
            Some(d) => format!("(Some ({}))", abs_block(&self.node, d, &mut self.int)),
            None => "None".to_string(),
        };
        let mut res = StepResult { add: None, panic_msg: None };
        let mut add_code = 0;
        if let Some(d) = delivered.clone() {
            let r = futures_catch(AssertUnwindSafe(self.node.add_block(d.clone()))).await;
            match r {
                Ok(c) => {
                    add_code = match c {
                        AddClass::OnChain => 1,
                        AddClass::Invalid => 5,
                        _ => 6,
                    };
                    if c == AddClass::OnChain {
                        self.chain.push(d);
                    }
                    res.add = Some(c);
                }
                Err(m) => {
                    add_code = 9;
                    res.add = Some(AddClass::Panicked);
                    res.panic_msg = Some(m);
                    self.dead = true;
                }
            }
        }
        let utxo_lit = if add_code == 1 { window_utxo(&self.node, &mut self.int) } else { "[]".to_string() };
        self.steps.push(format!(
            "mkStep {} {} {} {} ({}) {} {} {} {} {}",
            ts,
            gal::boolean(gt.is_some()),
            given_lit,
            bf,
            orc_lit,
            create_code,
            created_lit,
            delivered_lit,
            add_code,
            utxo_lit
        ));
        res
    }

    /// honest step: build with the real Block::create and deliver the result
    pub async fn honest_step(&mut self, ts: u64, gt: Option<Transaction>, txs: &[Transaction]) -> (CreateOutcome, StepResult) {
        let parent_hash = self.tip().hash;
        let r = create_block(&self.node, parent_hash, ts, txs, gt.clone()).await;
        match r {
            Ok(Ok(b)) => {
                let sr = self.step(ts, gt, txs, CreateOutcome::Ok, Some(b.clone()), Some(b)).await;
                (CreateOutcome::Ok, sr)
            }
            Ok(Err(e)) => {
                let sr = self.step(ts, gt, txs, CreateOutcome::Err(e.clone()), None, None).await;
                (CreateOutcome::Err(e), sr)
            }
            Err(p) => {
                let sr = self.step(ts, gt, txs, CreateOutcome::Panic(p.clone()), None, None).await;
                (CreateOutcome::Panic(p), sr)
            }
        }
    }

    pub fn history_literal(&self) -> String {
        format!(
            "mkHistory {} {} {} ({}) {} {}",
            self.gp,
            self.pab,
            gal::boolean(dbg_profile()),
            self.genesis_lit,
            self.gen_utxo_lit,
            gal::list(&self.steps.iter().map(|s| format!("({})", s)).collect::<Vec<_>>())
        )
    }

    // -------------------------------------------------------------- expected ATR values (independent of the model)

    /// multiplier and per-transaction fee the code defines for the block after the tip
    pub fn atr_params(&self) -> (u128, u128) {
        let p = self.tip();
        let staked = self.gp as u128 * p.avg_nolan_rebroadcast_per_block as u128;
        let payout = if staked > 0 { p.treasury as u128 / staked } else { 0 };
        (1 + payout, p.avg_fee_per_byte as u128)
    }
}

// ------------------------------------------------------------------ C13 oracle

#[derive(Default, Debug)]
pub struct AtrReport {
    pub expiring_unspent: usize,
    pub rebroadcast: usize,
    pub dust: usize,
    pub triples: usize,
    pub failures: Vec<String>,
    /// failures that belong to known classes: (finding id, text)
    pub known: Vec<(String, String)>,
}

/// Evaluates the C13 statement for the accepted block `b` (now the tip): `utxo_before` =
/// spendable entries before the block, `mult`/`fpb` = multiplier and fee per byte the
/// code defines (from the parent header), `e` = the block that left the window.
pub fn atr_oracle(
    sim: &mut Sim,
    b: &Block,
    e: Option<&Block>,
    utxo_before: &BTreeSet<Vec<u8>>,
    mult: u128,
    fpb: u128,
) -> AtrReport {
    let mut rep = AtrReport::default();
    let atrs: Vec<&Transaction> = b.transactions.iter().filter(|t| t.transaction_type == TransactionType::ATR).collect();
    let mut used = vec![false; atrs.len()];
    let utxo_after: BTreeSet<Vec<u8>> = sim.node.blockchain.utxoset.iter().filter(|(_, f)| **f).map(|(k, _)| k.to_vec()).collect();
    let mut expected_fees_atr: u128 = 0;
    if let Some(e) = e {
        for tx in &e.transactions {
            let size = tx.get_serialized_size() as u128;
            let fee = size * fpb;
            let mut i = 0;
            while i < tx.to.len() {
                let s = &tx.to[i];
                // an NFT group: bound, payload, bound — travels together
                let triple = s.slip_type == SlipType::Bound
                    && i + 2 < tx.to.len()
                    && tx.to[i + 1].slip_type != SlipType::Bound
                    && tx.to[i + 2].slip_type == SlipType::Bound;
                let (payload, group): (&Slip, Vec<&Slip>) =
                    if triple { (&tx.to[i + 1], vec![&tx.to[i], &tx.to[i + 1], &tx.to[i + 2]]) } else { (s, vec![s]) };
                i += if triple { 3 } else { 1 };
                let unspent = group.iter().all(|g| g.amount == 0 || utxo_before.contains(&g.get_utxoset_key().to_vec()));
                if !unspent || payload.amount == 0 {
                    continue;
                }
                if !triple && payload.slip_type == SlipType::Bound {
                    // a stray bound slip carries no value
                    continue;
                }
                rep.expiring_unspent += 1;
                if triple {
                    rep.triples += 1;
                }
                let a = payload.amount as u128;
                let loc = (payload.block_id, payload.tx_ordinal, payload.slip_index);
                let desc = format!("output {}:{}:{} amount {} of block {}", loc.0, loc.1, loc.2, a, e.id);
                // matching rebroadcast transactions: an input at the original location
                let hits: Vec<usize> = atrs
                    .iter()
                    .enumerate()
                    .filter(|(_, t)| t.from.iter().any(|f| (f.block_id, f.tx_ordinal, f.slip_index) == loc && f.slip_type != SlipType::Bound))
                    .map(|(k, _)| k)
                    .collect();
                if a * mult > fee {
                    if hits.len() != 1 {
                        rep.failures.push(format!("{} is handled by {} rebroadcast transactions", desc, hits.len()));
                    } else {
                        let t = atrs[hits[0]];
                        used[hits[0]] = true;
                        rep.rebroadcast += 1;
                        if triple {
                            let ok = t.from.len() == 3
                                && t.to.len() == 3
                                && t.to[0].slip_type == SlipType::Bound
                                && t.to[2].slip_type == SlipType::Bound
                                && t.to[0].public_key == group[0].public_key
                                && t.to[0].amount == group[0].amount
                                && t.to[2].public_key == group[2].public_key
                                && t.to[2].amount == group[2].amount;
                            if !ok {
                                rep.failures.push(format!("the NFT group of {} does not travel together (rebroadcast has {} inputs, {} outputs)", desc, t.from.len(), t.to.len()));
                            }
                        }
                        let out: Vec<&Slip> = t.to.iter().filter(|o| o.slip_type == SlipType::ATR).collect();
                        if out.len() != 1 || out[0].public_key != payload.public_key {
                            rep.failures.push(format!("{} does not reappear for the same owner", desc));
                        } else if out[0].amount as u128 != a * mult - fee {
                            let msg = format!(
                                "{} reappears with {} instead of value*multiplier - fee = {}*{} - {} = {}",
                                desc,
                                out[0].amount,
                                a,
                                mult,
                                fee,
                                a * mult - fee
                            );
                            if triple && out[0].amount as u128 == a * mult {
                                rep.known.push(("nft-rebroadcast-fee-not-deducted".to_string(), msg));
                            } else {
                                rep.failures.push(msg);
                            }
                        }
                        expected_fees_atr += fee;
                        if !sim.rebroadcast_seen.insert(loc) {
                            rep.failures.push(format!("{} is rebroadcast a second time", desc));
                        }
                    }
                    // the original must not be spendable any more
                    for g in &group {
                        if g.amount > 0 && utxo_after.contains(&g.get_utxoset_key().to_vec()) {
                            rep.failures.push(format!("original of {} is still spendable after its rebroadcast", desc));
                        }
                    }
                } else {
                    rep.dust += 1;
                    if !hits.is_empty() {
                        rep.failures.push(format!("{} is too small to pay the fee but is rebroadcast", desc));
                    }
                    expected_fees_atr += a;
                    // can it still be spent? ask the real Transaction::validate (as pool and block validation do)
                    if let Some(owner) = sim.key_index(&payload.public_key) {
                        let mut spend = make_tx(&[payload.clone()], &[(payload.public_key, payload.amount)], &sim.keys[owner].1, b.timestamp + 1);
                        spend.generate(&sim.node.pk, 0, 0);
                        let ok = std::panic::catch_unwind(AssertUnwindSafe(|| spend.validate(&sim.node.blockchain.utxoset, &sim.node.blockchain, true))).unwrap_or(false);
                        if ok {
                            rep.known.push((
                                "collected-output-stays-spendable".to_string(),
                                format!("{}: its value was collected as fees but a transaction spending it still validates", desc),
                            ));
                        }
                    }
                }
            }
        }
    }
    for (k, u) in used.iter().enumerate() {
        if !u {
            rep.failures.push(format!(
                "rebroadcast transaction #{} of block {} (inputs {:?}) rebroadcasts nothing that left the window unspent",
                k,
                b.id,
                atrs[k].from.iter().map(|f| (f.block_id, f.tx_ordinal, f.slip_index, f.amount)).collect::<Vec<_>>()
            ));
        }
    }
    if b.total_fees_atr as u128 != expected_fees_atr {
        rep.failures.push(format!(
            "block {} collects {} as rebroadcast fees, expected {} (fees of rebroadcast outputs + value of the too-small ones)",
            b.id, b.total_fees_atr, expected_fees_atr
        ));
    }
    rep
}

/// spendable entries older than the window (they can no longer be rebroadcast)
pub fn stale_entries(node: &Node) -> Vec<Slip> {
    let tip = node.blockchain.get_latest_block_id();
    let lo = tip.saturating_sub(node.params.genesis_period);
    utxo_slips(node).into_iter().filter(|s| s.block_id < lo).collect()
}

// ------------------------------------------------------------------ random histories

pub struct GenParams {
    pub gp: u64,
    pub pab: u64,
    pub nkeys: u8,
    pub blocks: usize,
    /// 0 = tiny fees, 1 = mixed, 2 = large fees (fee per byte > 0: dust exists)
    pub fee_mode: u64,
    pub hops: bool,
}

pub fn gen_issuance(rng: &mut Rng, nkeys: u8, big: bool) -> Vec<(usize, u64)> {
    let n = rng.range(5, 11) as usize;
    let mut v = vec![];
    for i in 0..n {
        let k = if i == 0 { 0 } else { rng.below(nkeys as u64) as usize };
        let amount = match rng.below(6) {
            0 => rng.range(1, 50),
            1 => rng.range(500, 5_000),
            2 => rng.range(20_000, 90_000),
            3 => rng.range(100_000, 900_000),
            _ => rng.range(1_000_000, 50_000_000),
        };
        let amount = if big && i < 2 { (1u64 << 61) + rng.below(1 << 40) } else { amount };
        v.push((k, amount));
    }
    v
}

/// a payment spending `input`: 1..3 outputs to random keys, fee per `fee_mode`
pub fn gen_payment(sim: &Sim, rng: &mut Rng, input: &Slip, fee_mode: u64, hops: bool, ts: u64) -> Transaction {
    let owner = sim.key_index(&input.public_key).unwrap();
    let a = input.amount;
    let fee = match (fee_mode, rng.below(4)) {
        (0, _) => rng.below(20).min(a),
        (1, 0) => 0,
        (1, 1) => rng.below(200).min(a),
        (1, _) => (a / rng.range(3, 40)).min(a),
        (_, 0) => rng.below(200).min(a),
        (_, _) => (a / rng.range(2, 12)).max(30_000.min(a)),
    };
    let rest = a - fee;
    let nout = rng.range(1, 3);
    let mut outs = vec![];
    let mut left = rest;
    for k in 0..nout {
        let amt = if k == nout - 1 { left } else { left / rng.range(2, 5) };
        left -= amt;
        let to = rng.below(sim.keys.len() as u64) as usize;
        outs.push((sim.keys[to].0, amt));
    }
    let mut tx = make_tx(&[input.clone()], &outs, &sim.keys[owner].1, ts);
    if hops && owner != 0 && rng.chance(1, 2) {
        // routed: sender -> (another key ->) the block producer
        if rng.chance(1, 3) && sim.keys.len() > 2 {
            let mid = 1 + (owner % (sim.keys.len() - 1));
            if mid != owner && mid != 0 {
                tx.add_hop(&sim.keys[owner].1, &sim.keys[owner].0, &sim.keys[mid].0);
                tx.add_hop(&sim.keys[mid].1, &sim.keys[mid].0, &sim.keys[0].0);
            } else {
                tx.add_hop(&sim.keys[owner].1, &sim.keys[owner].0, &sim.keys[0].0);
            }
        } else {
            tx.add_hop(&sim.keys[owner].1, &sim.keys[owner].0, &sim.keys[0].0);
        }
    }
    tx
}

/// golden-ticket policy: keeps the 2-in-6 density and a low difficulty
pub fn want_gt(sim: &Sim, rng: &mut Rng, force: bool) -> bool {
    let n = sim.chain.len();
    let recent: Vec<bool> = sim.chain[n.saturating_sub(5)..].iter().map(|b| b.has_golden_ticket).collect();
    let count = recent.iter().filter(|x| **x).count();
    let tip = sim.tip();
    if force {
        return true;
    }
    if n >= 4 && count < 2 {
        return true;
    }
    if tip.has_golden_ticket && tip.difficulty >= 8 {
        return false;
    }
    rng.chance(1, 2)
}

pub fn summarize_map(m: &BTreeMap<String, u64>) -> String {
    m.iter().map(|(k, v)| format!("{}={}", k, v)).collect::<Vec<_>>().join(",")
}
