//! Printing Gallina literals and case files evaluated by coqc.
use std::fmt::Write as _;
use std::io::Write as _;

pub fn n(x: u64) -> String {
    format!("{}", x)
}
pub fn list<T: AsRef<str>>(items: &[T]) -> String {
    let mut s = String::from("[");
    for (i, it) in items.iter().enumerate() {
        if i > 0 {
            s.push_str("; ");
        }
        s.push_str(it.as_ref());
    }
    s.push(']');
    s
}
pub fn nlist(xs: &[u64]) -> String {
    list(&xs.iter().map(|x| n(*x)).collect::<Vec<_>>())
}
pub fn nllist(xs: &[Vec<u64>]) -> String {
    list(&xs.iter().map(|x| nlist(x)).collect::<Vec<_>>())
}
pub fn nlllist(xs: &[Vec<Vec<u64>>]) -> String {
    list(&xs.iter().map(|x| nllist(x)).collect::<Vec<_>>())
}
pub fn boolean(b: bool) -> &'static str {
    if b {
        "true"
    } else {
        "false"
    }
}
/// bytes as a hex string literal, decoded in Coq by `Bytes.of_hex`
pub fn hex(bs: &[u8]) -> String {
    let mut s = String::with_capacity(bs.len() * 2 + 2);
    s.push('"');
    for b in bs {
        write!(s, "{:02x}", b).unwrap();
    }
    s.push('"');
    s
}

/// Writes `shards` Coq files `<dir>/<name>_<k>.v`. Each holds
/// `Definition cases : list (N * T) := [...]` and evaluates
/// `filter_map (fun '(i,c) => if check c then None else Some i) cases`.
/// `header` = the Require lines + `Definition check (c : T) : bool := ...`.
pub fn write_shards(
    dir: &str,
    name: &str,
    header: &str,
    case_type: &str,
    cases: &[String],
    shards: usize,
) -> std::io::Result<Vec<String>> {
    std::fs::create_dir_all(dir)?;
    let shards = shards.max(1).min(cases.len().max(1));
    let mut files = vec![];
    for k in 0..shards {
        let path = format!("{}/{}_{}.v", dir, name, k);
        let mut f = std::io::BufWriter::new(std::fs::File::create(&path)?);
        writeln!(f, "{}", header)?;
        writeln!(f, "Open Scope N_scope.")?;
        writeln!(f, "Definition cases : list (N * ({})) := [", case_type)?;
        let mut first = true;
        for (i, c) in cases.iter().enumerate() {
            if i % shards != k {
                continue;
            }
            if !first {
                writeln!(f, ";")?;
            }
            first = false;
            write!(f, "({}, {})", i, c)?;
        }
        writeln!(f, "].")?;
        writeln!(
            f,
            "Definition bad : list N := flat_map (fun ic => if check (snd ic) then [] else [fst ic]) cases."
        )?;
        writeln!(f, "Eval vm_compute in bad.")?;
        files.push(path);
    }
    Ok(files)
}
