//! Shared pieces of the correspondence harness.
pub mod chainsim;
pub mod common;
pub mod gal;
pub mod rng;
pub mod world;
