//! Shared pieces of the correspondence harness.
pub mod common;
pub mod gal;
pub mod rng;
pub mod world;
