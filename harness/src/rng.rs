/// SplitMix64: every random choice of a run derives from one state.
#[derive(Clone)]
pub struct Rng(pub u64);
impl Rng {
    pub fn new(seed: u64) -> Rng {
        Rng(seed ^ 0x9E37_79B9_7F4A_7C15)
    }
    pub fn next(&mut self) -> u64 {
        self.0 = self.0.wrapping_add(0x9E37_79B9_7F4A_7C15);
        let mut z = self.0;
        z = (z ^ (z >> 30)).wrapping_mul(0xBF58_476D_1CE4_E5B9);
        z = (z ^ (z >> 27)).wrapping_mul(0x94D0_49BB_1331_11EB);
        z ^ (z >> 31)
    }
    /// uniform in 0..n (n > 0)
    pub fn below(&mut self, n: u64) -> u64 {
        self.next() % n
    }
    pub fn range(&mut self, lo: u64, hi: u64) -> u64 {
        lo + self.below(hi - lo + 1)
    }
    pub fn chance(&mut self, num: u64, den: u64) -> bool {
        self.below(den) < num
    }
    pub fn pick<'a, T>(&mut self, v: &'a [T]) -> &'a T {
        &v[self.below(v.len() as u64) as usize]
    }
    pub fn fork(&mut self) -> Rng {
        Rng(self.next())
    }
}
