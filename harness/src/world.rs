//! A real saito-core node in memory: in-memory `InterfaceIO` with a journal,
//! a `Configuration`, deterministic keys, block / transaction / golden-ticket
//! builders that use the real `Block::create`, and canonical snapshots.
use std::collections::BTreeMap;
use std::io::{Error, ErrorKind};
use std::sync::{Arc, Mutex};

use ahash::AHashMap;
use async_trait::async_trait;
use saito_core::core::consensus::block::{Block, BlockType};
use saito_core::core::consensus::blockchain::{AddBlockResult, Blockchain};
use saito_core::core::consensus::golden_ticket::GoldenTicket;
use saito_core::core::consensus::mempool::Mempool;
use saito_core::core::consensus::peers::peer_service::PeerService;
use saito_core::core::consensus::slip::{Slip, SlipType};
use saito_core::core::consensus::transaction::{Transaction, TransactionType};
use saito_core::core::consensus::wallet::Wallet;
use saito_core::core::defs::{
    BlockId, Currency, PeerIndex, SaitoHash, SaitoPrivateKey, SaitoPublicKey, SaitoSignature,
    SaitoUTXOSetKey, Timestamp,
};
use saito_core::core::io::interface_io::{InterfaceEvent, InterfaceIO};
use saito_core::core::io::storage::Storage;
use saito_core::core::util::configuration::{
    BlockchainConfig, Configuration, ConsensusConfig, PeerConfig, Server,
};
use saito_core::core::util::crypto::{generate_keypair_from_private_key, hash};
use tokio::sync::RwLock;

// ---------------------------------------------------------------- disk / IO

#[derive(Clone, Debug, PartialEq)]
pub enum DiskOp {
    Write(String, Vec<u8>),
    Remove(String),
}

#[derive(Default, Debug)]
pub struct Disk {
    pub files: BTreeMap<String, Vec<u8>>,
    /// order in which files were first created (RustIOHandler lists by mtime)
    pub order: Vec<String>,
    pub journal: Vec<DiskOp>,
    pub sent: Vec<(u64, Vec<u8>)>,
    pub broadcasts: Vec<(Vec<u8>, Vec<u64>)>,
    pub fetches: Vec<(SaitoHash, u64, String, BlockId)>,
    pub connects: Vec<(String, PeerIndex)>,
    pub disconnects: Vec<u64>,
    pub events: Vec<String>,
    pub api_calls: Vec<(u8, Vec<u8>, u32, PeerIndex)>,
    /// number of coming fetch_block_from_peer calls that answer Err (the request is still recorded)
    pub fail_fetches: u32,
}

#[derive(Clone, Debug)]
pub struct MemIo {
    pub disk: Arc<Mutex<Disk>>,
    pub block_dir: String,
}
impl MemIo {
    pub fn new(disk: Arc<Mutex<Disk>>) -> MemIo {
        MemIo { disk, block_dir: "./data/blocks/".to_string() }
    }
}

#[async_trait]
impl InterfaceIO for MemIo {
    async fn send_message(&self, peer_index: u64, buffer: &[u8]) -> Result<(), Error> {
        self.disk.lock().unwrap().sent.push((peer_index, buffer.to_vec()));
        Ok(())
    }
    async fn send_message_to_all(&self, buffer: &[u8], excluded: Vec<u64>) -> Result<(), Error> {
        self.disk.lock().unwrap().broadcasts.push((buffer.to_vec(), excluded));
        Ok(())
    }
    async fn connect_to_peer(&mut self, url: String, peer_index: PeerIndex) -> Result<(), Error> {
        self.disk.lock().unwrap().connects.push((url, peer_index));
        Ok(())
    }
    async fn disconnect_from_peer(&self, peer_index: u64) -> Result<(), Error> {
        self.disk.lock().unwrap().disconnects.push(peer_index);
        Ok(())
    }
    async fn fetch_block_from_peer(
        &self,
        block_hash: SaitoHash,
        peer_index: u64,
        url: &str,
        block_id: BlockId,
    ) -> Result<(), Error> {
        let mut d = self.disk.lock().unwrap();
        d.fetches.push((block_hash, peer_index, url.to_string(), block_id));
        if d.fail_fetches > 0 {
            d.fail_fetches -= 1;
            return Err(Error::new(ErrorKind::Other, "fetch could not be started"));
        }
        Ok(())
    }
    async fn write_value(&self, key: &str, value: &[u8]) -> Result<(), Error> {
        let mut d = self.disk.lock().unwrap();
        d.journal.push(DiskOp::Write(key.to_string(), value.to_vec()));
        if !d.files.contains_key(key) {
            d.order.push(key.to_string());
        }
        d.files.insert(key.to_string(), value.to_vec());
        Ok(())
    }
    async fn append_value(&mut self, _key: &str, _value: &[u8]) -> Result<(), Error> {
        Ok(())
    }
    async fn flush_data(&mut self, _key: &str) -> Result<(), Error> {
        Ok(())
    }
    async fn read_value(&self, key: &str) -> Result<Vec<u8>, Error> {
        match self.disk.lock().unwrap().files.get(key) {
            Some(v) => Ok(v.clone()),
            None => Err(Error::from(ErrorKind::NotFound)),
        }
    }
    async fn load_block_file_list(&self) -> Result<Vec<String>, Error> {
        let d = self.disk.lock().unwrap();
        Ok(d.order
            .iter()
            .filter(|k| d.files.contains_key(*k))
            .filter(|k| k.starts_with(&self.block_dir) && k.ends_with(".sai"))
            .map(|k| k[self.block_dir.len()..].to_string())
            .collect())
    }
    async fn is_existing_file(&self, key: &str) -> bool {
        self.disk.lock().unwrap().files.contains_key(key)
    }
    async fn remove_value(&self, key: &str) -> Result<(), Error> {
        let mut d = self.disk.lock().unwrap();
        d.journal.push(DiskOp::Remove(key.to_string()));
        d.order.retain(|k| k != key);
        match d.files.remove(key) {
            Some(_) => Ok(()),
            None => Err(Error::from(ErrorKind::NotFound)),
        }
    }
    fn get_block_dir(&self) -> String {
        self.block_dir.clone()
    }
    fn get_checkpoint_dir(&self) -> String {
        "./data/checkpoints/".to_string()
    }
    fn ensure_block_directory_exists(&self, _block_dir: &str) -> Result<(), Error> {
        Ok(())
    }
    async fn process_api_call(&self, buffer: Vec<u8>, msg_index: u32, peer_index: PeerIndex) {
        self.disk.lock().unwrap().api_calls.push((0, buffer, msg_index, peer_index));
    }
    async fn process_api_success(&self, buffer: Vec<u8>, msg_index: u32, peer_index: PeerIndex) {
        self.disk.lock().unwrap().api_calls.push((1, buffer, msg_index, peer_index));
    }
    async fn process_api_error(&self, buffer: Vec<u8>, msg_index: u32, peer_index: PeerIndex) {
        self.disk.lock().unwrap().api_calls.push((2, buffer, msg_index, peer_index));
    }
    fn send_interface_event(&self, event: InterfaceEvent) {
        let s = match event {
            InterfaceEvent::PeerHandshakeComplete(i) => format!("handshake_complete {}", i),
            InterfaceEvent::PeerConnectionDropped(i, _) => format!("connection_dropped {}", i),
            InterfaceEvent::PeerConnected(i) => format!("peer_connected {}", i),
            InterfaceEvent::BlockAddSuccess(_, id) => format!("block_add_success {}", id),
            InterfaceEvent::WalletUpdate() => "wallet_update".to_string(),
            InterfaceEvent::NewVersionDetected(i, _) => format!("new_version {}", i),
            InterfaceEvent::StunPeerConnected(i) => format!("stun_connected {}", i),
            InterfaceEvent::StunPeerDisconnected(i, _) => format!("stun_disconnected {}", i),
            InterfaceEvent::BlockFetchStatus(id) => format!("block_fetch_status {}", id),
        };
        self.disk.lock().unwrap().events.push(s);
    }
    async fn save_wallet(&self, _wallet: &mut Wallet) -> Result<(), Error> {
        Ok(())
    }
    async fn load_wallet(&self, _wallet: &mut Wallet) -> Result<(), Error> {
        Ok(())
    }
    fn get_my_services(&self) -> Vec<PeerService> {
        vec![]
    }
}

// ---------------------------------------------------------------- configuration

#[derive(Clone, Debug)]
pub struct Cfg {
    pub server: Option<Server>,
    pub peers: Vec<PeerConfig>,
    pub blockchain: BlockchainConfig,
    pub consensus: ConsensusConfig,
    pub spv: bool,
    pub browser: bool,
    pub fetch_url: String,
}
impl Configuration for Cfg {
    fn get_server_configs(&self) -> Option<&Server> {
        self.server.as_ref()
    }
    fn get_peer_configs(&self) -> &Vec<PeerConfig> {
        &self.peers
    }
    fn get_blockchain_configs(&self) -> &BlockchainConfig {
        &self.blockchain
    }
    fn get_block_fetch_url(&self) -> String {
        self.fetch_url.clone()
    }
    fn is_spv_mode(&self) -> bool {
        self.spv
    }
    fn is_browser(&self) -> bool {
        self.browser
    }
    fn replace(&mut self, _config: &dyn Configuration) {}
    fn get_consensus_config(&self) -> Option<&ConsensusConfig> {
        Some(&self.consensus)
    }
}

#[derive(Clone, Debug)]
pub struct Params {
    pub genesis_period: u64,
    pub heartbeat: u64,
    pub prune_after_blocks: u64,
    pub max_staker_recursions: u64,
    pub social_stake: Currency,
    pub social_stake_period: u64,
    pub initial_loading_completed: bool,
}
impl Default for Params {
    fn default() -> Self {
        Params {
            genesis_period: 100,
            heartbeat: 100,
            prune_after_blocks: 8,
            max_staker_recursions: 3,
            social_stake: 0,
            social_stake_period: 60,
            initial_loading_completed: false,
        }
    }
}
impl Params {
    pub fn cfg(&self) -> Cfg {
        let mut bc = BlockchainConfig::default();
        bc.initial_loading_completed = self.initial_loading_completed;
        bc.issuance_writing_block_interval = 0;
        Cfg {
            server: None,
            peers: vec![],
            blockchain: bc,
            consensus: ConsensusConfig {
                genesis_period: self.genesis_period,
                heartbeat_interval: self.heartbeat,
                prune_after_blocks: self.prune_after_blocks,
                max_staker_recursions: self.max_staker_recursions,
                default_social_stake: self.social_stake,
                default_social_stake_period: self.social_stake_period,
            },
            spv: false,
            browser: false,
            fetch_url: "http://localhost:12101/block/".to_string(),
        }
    }
}

// ---------------------------------------------------------------- keys

/// deterministic key pair number `n` (n >= 1)
pub fn keypair(n: u8) -> (SaitoPublicKey, SaitoPrivateKey) {
    let mut sk = [0u8; 32];
    sk[0] = 0x11;
    sk[31] = n;
    sk[15] = n.wrapping_mul(37).wrapping_add(1);
    generate_keypair_from_private_key(&sk)
}

// ---------------------------------------------------------------- node

#[derive(Clone, Debug, PartialEq, Eq, PartialOrd, Ord)]
pub enum AddClass {
    OnChain,
    OffChain,
    Exists,
    Retry,
    Invalid,
    Panicked,
}
impl AddClass {
    pub fn code(&self) -> u64 {
        match self {
            AddClass::OnChain => 1,
            AddClass::OffChain => 2,
            AddClass::Exists => 3,
            AddClass::Retry => 4,
            AddClass::Invalid => 5,
            AddClass::Panicked => 9,
        }
    }
}

pub struct Node {
    pub blockchain: Blockchain,
    pub mempool: Mempool,
    pub wallet_lock: Arc<RwLock<Wallet>>,
    pub storage: Storage,
    pub cfg: Cfg,
    pub disk: Arc<Mutex<Disk>>,
    pub pk: SaitoPublicKey,
    pub sk: SaitoPrivateKey,
    pub params: Params,
}

#[derive(Clone, Debug, PartialEq, Eq)]
pub struct ChainSnapshot {
    pub tip_id: u64,
    pub tip_hash: SaitoHash,
    /// longest-chain index: (block id, hash) for every id at which the ring reports one
    pub lc_index: Vec<(u64, SaitoHash)>,
    /// stored blocks: (hash, id, in_longest_chain)
    pub blocks: Vec<(SaitoHash, u64, bool)>,
    /// per stored block (same order): does the block ring hold an entry for it at its height?
    pub in_ring: Vec<bool>,
    /// utxo entries (key, spendable flag)
    pub utxo: Vec<(SaitoUTXOSetKey, bool)>,
    pub last_block_id: u64,
    pub last_block_hash: SaitoHash,
    pub genesis_block_id: u64,
    /// (last_timestamp, last_burnfee): the rest of the tip bookkeeping of Blockchain
    pub last_ts_burnfee: (u64, u64),
}

impl Node {
    pub fn new(params: &Params, key: u8) -> Node {
        Node::with_disk(params, key, Arc::new(Mutex::new(Disk::default())))
    }
    pub fn with_disk(params: &Params, key: u8, disk: Arc<Mutex<Disk>>) -> Node {
        let (pk, sk) = keypair(key);
        let wallet_lock = Arc::new(RwLock::new(Wallet::new(sk, pk)));
        let blockchain = Blockchain::new(
            wallet_lock.clone(),
            params.genesis_period,
            params.social_stake,
            params.social_stake_period,
        );
        let mempool = Mempool::new(wallet_lock.clone());
        let storage = Storage::new(Box::new(MemIo::new(disk.clone())));
        Node {
            blockchain,
            mempool,
            wallet_lock,
            storage,
            cfg: params.cfg(),
            disk,
            pk,
            sk,
            params: params.clone(),
        }
    }

    pub async fn add_block(&mut self, block: Block) -> AddClass {
        let r = self
            .blockchain
            .add_block(block, &mut self.storage, &mut self.mempool, &self.cfg)
            .await;
        match r {
            AddBlockResult::BlockAddedSuccessfully(_, true, _) => AddClass::OnChain,
            AddBlockResult::BlockAddedSuccessfully(_, false, _) => AddClass::OffChain,
            AddBlockResult::BlockAlreadyExists => AddClass::Exists,
            AddBlockResult::FailedButRetry(_, _, _) => AddClass::Retry,
            AddBlockResult::FailedNotValid => AddClass::Invalid,
        }
    }

    pub fn snapshot(&self) -> ChainSnapshot {
        let bc = &self.blockchain;
        let tip_id = bc.blockring.get_latest_block_id();
        let tip_hash = bc.blockring.get_latest_block_hash();
        let mut max_id = tip_id;
        for b in bc.blocks.values() {
            max_id = max_id.max(b.id);
        }
        let mut lc_index = vec![];
        for id in 0..=max_id + 1 {
            if let Some(h) = bc.blockring.get_longest_chain_block_hash_at_block_id(id) {
                lc_index.push((id, h));
            }
        }
        let mut blocks: Vec<(SaitoHash, u64, bool)> =
            bc.blocks.values().map(|b| (b.hash, b.id, b.in_longest_chain)).collect();
        blocks.sort();
        let in_ring: Vec<bool> = blocks
            .iter()
            .map(|(h, id, _)| bc.blockring.contains_block_hash_at_block_id(*id, *h))
            .collect();
        let mut utxo: Vec<(SaitoUTXOSetKey, bool)> =
            bc.utxoset.iter().map(|(k, v)| (*k, *v)).collect();
        utxo.sort();
        ChainSnapshot {
            tip_id,
            tip_hash,
            lc_index,
            blocks,
            in_ring,
            utxo,
            last_block_id: bc.last_block_id,
            last_block_hash: bc.last_block_hash,
            genesis_block_id: bc.genesis_block_id,
            last_ts_burnfee: (bc.last_timestamp, bc.last_burnfee),
        }
    }
}

// ---------------------------------------------------------------- builders

pub fn fixed_tx_map() -> AHashMap<SaitoSignature, Transaction> {
    AHashMap::with_hasher(ahash::RandomState::with_seeds(1, 2, 3, 4))
}

/// a normal transaction spending `inputs` (slips as they appear in the `to`
/// list of an earlier on-chain transaction) signed by `sk`
pub fn make_tx(
    inputs: &[Slip],
    outputs: &[(SaitoPublicKey, Currency)],
    sk: &SaitoPrivateKey,
    timestamp: Timestamp,
) -> Transaction {
    let mut tx = Transaction::default();
    tx.transaction_type = TransactionType::Normal;
    tx.timestamp = timestamp;
    for s in inputs {
        let mut s = s.clone();
        s.generate_utxoset_key();
        tx.add_from_slip(s);
    }
    for (pk, amount) in outputs {
        let mut o = Slip::default();
        o.public_key = *pk;
        o.amount = *amount;
        o.slip_type = SlipType::Normal;
        tx.add_to_slip(o);
    }
    tx.sign(sk);
    tx
}

/// mines a golden ticket for `parent` (deterministic in `seed`)
pub fn mine_golden_ticket(
    parent_hash: SaitoHash,
    difficulty: u64,
    miner: SaitoPublicKey,
    seed: u64,
) -> GoldenTicket {
    let mut r = hash(&seed.to_be_bytes());
    loop {
        let gt = GoldenTicket::create(parent_hash, r, miner);
        if gt.validate(difficulty) {
            return gt;
        }
        r = hash(&r);
    }
}

pub async fn golden_ticket_tx(
    parent_hash: SaitoHash,
    difficulty: u64,
    pk: &SaitoPublicKey,
    sk: &SaitoPrivateKey,
    seed: u64,
) -> Transaction {
    let gt = mine_golden_ticket(parent_hash, difficulty, *pk, seed);
    Wallet::create_golden_ticket_transaction(gt, pk, sk).await
}

/// Builds a block on `parent_hash` with the real `Block::create` on `node`,
/// whose longest chain must end in the parent. Golden ticket included if asked.
pub async fn make_block(
    node: &Node,
    parent_hash: SaitoHash,
    timestamp: Timestamp,
    txs: Vec<Transaction>,
    with_gt: bool,
    gt_seed: u64,
) -> Result<Block, String> {
    let mut map = fixed_tx_map();
    for mut tx in txs {
        tx.generate(&node.pk, 0, 0);
        map.insert(tx.signature, tx);
    }
    let mut gt_opt = None;
    if with_gt {
        let parent = node
            .blockchain
            .get_block(&parent_hash)
            .ok_or_else(|| "parent not found for golden ticket".to_string())?;
        let mut gttx =
            golden_ticket_tx(parent_hash, parent.difficulty, &node.pk, &node.sk, gt_seed).await;
        gttx.generate(&node.pk, 0, 0);
        gt_opt = Some(gttx);
    }
    let mut block = Block::create(
        &mut map,
        parent_hash,
        &node.blockchain,
        timestamp,
        &node.pk,
        &node.sk,
        gt_opt,
        &node.cfg,
        &node.storage,
    )
    .await
    .map_err(|e| format!("Block::create failed: {:?}", e))?;
    block.generate().map_err(|e| format!("generate failed: {:?}", e))?;
    block.sign(&node.sk);
    block.generate().map_err(|e| format!("generate failed: {:?}", e))?;
    Ok(block)
}

/// Genesis block: empty block on [0;32] plus issuance transactions
pub async fn make_genesis(
    node: &Node,
    timestamp: Timestamp,
    issuance: &[(SaitoPublicKey, Currency)],
) -> Result<Block, String> {
    let mut block = make_block(node, [0; 32], timestamp, vec![], false, 0).await?;
    for (pk, amount) in issuance {
        let mut tx = Transaction::create_issuance_transaction(*pk, *amount);
        tx.generate(&node.pk, 0, 0);
        tx.sign(&node.sk);
        block.add_transaction(tx);
    }
    block.merkle_root = block.generate_merkle_root(false, false);
    block.generate().map_err(|e| format!("{:?}", e))?;
    block.sign(&node.sk);
    block.generate().map_err(|e| format!("{:?}", e))?;
    Ok(block)
}

/// re-signs a block after a header mutation (validly signed but possibly invalid)
pub fn resign(block: &mut Block, sk: &SaitoPrivateKey) {
    block.generate_pre_hash();
    block.sign(sk);
    let _ = block.generate();
}

/// the outputs (as spendable input slips) of transaction `tx_index` of `block`
pub fn outputs_of(block: &Block, tx_index: usize) -> Vec<Slip> {
    block.transactions[tx_index].to.clone()
}

pub fn block_type_code(t: BlockType) -> u64 {
    match t {
        BlockType::Ghost => 0,
        BlockType::Header => 1,
        BlockType::Pruned => 2,
        BlockType::Full => 3,
    }
}

// ---------------------------------------------------------------- interning

/// first-seen-order interning of byte strings into small numbers (0 = all-zero value)
#[derive(Default)]
pub struct Interner {
    map: BTreeMap<Vec<u8>, u64>,
}
impl Interner {
    pub fn get(&mut self, bytes: &[u8]) -> u64 {
        if bytes.iter().all(|b| *b == 0) {
            return 0;
        }
        let n = self.map.len() as u64 + 1;
        *self.map.entry(bytes.to_vec()).or_insert(n)
    }
    pub fn len(&self) -> usize {
        self.map.len()
    }
}
