//! Cross-check (ii) of DESIGN 5.1: golden paths.  Each entry was read off the
//! Rust source by hand (pinned tree) and must be found, in this order, as a
//! subsequence of the extracted event list of the function.  They pin down the
//! translator's treatment of: nested block scopes, explicit `drop`, `drop`
//! inside a branch (released in the branch, held again after it), guards that
//! live to the end of the function, temporaries, and calls under live guards.
//!
//!   A <lock> <R|W>   acquisition            R <lock>   release
//!   H <lock>         held again after a branch that dropped it
//!   C <Type::fn>     call that may reach that function
//!
//! If the source of one of these functions is changed on purpose, the entry has
//! to be re-read and updated (a failing golden path is a translator alarm, not
//! a property violation).

use crate::walk::{Ev, Out};

const GOLDEN: &[(&str, &[&str])] = &[
    // routing_thread.rs: blockchain read inside its own block; then peers + wallet, both dropped
    // explicitly before the scheduler and fetch calls
    ("saito_core::routing_thread::RoutingThread::process_incoming_block_hash",
     &["A LBlockchain R", "R LBlockchain", "A LPeers R", "A LWallet R", "R LPeers", "R LWallet",
       "C BlockchainSyncState::add_entry", "C RoutingThread::fetch_next_blocks"]),
    // consensus_thread.rs: cfg -> blockchain -> mempool; drop(mempool) only inside the `if let Some(block)` branch,
    // before add_blocks_from_mempool; the else-branch propagates with all three still held
    ("saito_core::consensus_thread::ConsensusThread::bundle_block",
     &["A LCfg R", "A LBlockchain W", "A LMempool W", "C ConsensusThread::produce_block", "R LMempool",
       "C Blockchain::add_blocks_from_mempool", "H LMempool", "C Network::propagate_transaction",
       "R LMempool", "R LBlockchain", "R LCfg"]),
    // network.rs: peers write guard first, peer handshake under it, sync request afterwards (whether the guard is
    // still alive at that call is the finding of DESIGN 9 row 18 -- deliberately not pinned here, so that a
    // `drop(peers)` repair does not trip the translator alarm)
    ("saito_core::network::Network::handle_handshake_response",
     &["A LPeers W", "C Peer::handle_handshake_response", "C Network::request_blockchain_from_peer"]),
    ("saito_core::network::Network::request_blockchain_from_peer",
     &["A LCfg R", "A LBlockchain R", "R LBlockchain", "R LCfg"]),
    // peer.rs: the response is built and sent under the wallet read guard (whether the configuration is read
    // here, under the caller's peers guard, is a listed finding -- deliberately not pinned, so that moving that
    // read into Network does not trip the translator alarm)
    ("saito_core::peer::Peer::handle_handshake_challenge",
     &["A LWallet R", "C send_message", "R LWallet"]),
    // saitowasm.rs: the gate first and last, the transaction is created under the wallet write guard (the relative
    // order of wallet / configuration / blockchain inside the gate is a listed finding -- not pinned)
    ("saito_wasm::saitowasm::create_transaction",
     &["A LSaito W", "A LWallet W", "C Transaction::create", "R LWallet", "R LSaito"]),
    // saito-rust main.rs: wallet guard in its own block; the consensus configuration is read under one guard inside a
    // block expression and released before Context::new (fix 9007b23); then configuration and blockchain guards
    // to the end of the function
    ("saito_rust::main::run_utxo_to_issuance_converter",
     &["A LWallet W", "R LWallet", "A LCfg R", "R LCfg", "C Context::new", "A LCfg R", "A LBlockchain W", "R LBlockchain", "R LCfg"]),
];

fn matches(e: &Ev, pat: &str, name: &dyn Fn(usize) -> String) -> bool {
    let p: Vec<&str> = pat.split(' ').collect();
    match (p[0], e) {
        ("A", Ev::Acq { lock, write, .. }) => lock == p[1] && *write == (p[2] == "W"),
        ("R", Ev::Rel { lock }) => lock == p[1],
        ("H", Ev::Hold { lock }) => lock == p[1],
        ("C", Ev::Call { callees, .. }) => callees.iter().any(|&c| name(c).ends_with(p[1])),
        _ => false,
    }
}

pub fn check(outs: &[Out], name: &dyn Fn(usize) -> String) -> Vec<String> {
    let mut errs = vec![];
    for (f, pats) in GOLDEN {
        let Some(o) = outs.iter().find(|o| o.name == *f) else {
            errs.push(format!("golden function {} not found", f));
            continue;
        };
        let mut i = 0;
        for e in &o.events {
            if i < pats.len() && matches(e, pats[i], name) {
                i += 1;
            }
        }
        if i < pats.len() {
            errs.push(format!("golden path of {}: step {} (`{}`) not found in the extracted events", f, i, pats[i]));
        }
    }
    errs
}
