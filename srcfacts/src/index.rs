//! Pass 1: parse the crates (following `mod x;` from lib.rs / main.rs, skipping
//! test-only items) and index every function, struct field type and trait.

use std::collections::{BTreeMap, BTreeSet};
use std::fs;
use std::path::{Path, PathBuf};
use syn::{Attribute, FnArg, ImplItem, Item, Pat, ReturnType, Signature, TraitItem, Type};

pub struct FnDef {
    pub name: String,  // crate::file::Type::fn
    pub krate: String, // saito_core | saito_rust | saito_spammer | saito_wasm
    pub file: String,  // path relative to the repository
    pub self_ty: Option<String>,
    pub trait_name: Option<String>,
    pub ident: String,
    pub has_self: bool,
    pub nparams: usize, // parameters other than self
    pub is_async: bool,
    pub wasm_entry: bool,
    pub params: Vec<(String, Vec<String>)>, // parameter -> parsed type names occurring in its type
    pub ret: Vec<String>,
    pub body: Option<syn::Block>,
}

#[derive(Default)]
pub struct Index {
    pub fns: Vec<FnDef>,
    pub types: BTreeSet<String>,                           // structs, enums, traits of the parsed crates
    pub fields: BTreeMap<(String, String), Vec<String>>,   // (struct, field) -> parsed type names in the field type
    pub by_name: BTreeMap<String, Vec<usize>>,             // fn ident -> functions
    pub by_type: BTreeMap<(String, String), Vec<usize>>,   // (type or trait or file stem, fn ident) -> functions
    pub trait_impls: BTreeMap<String, BTreeSet<String>>,   // trait -> implementing types
    pub files: Vec<String>,
}

/// `#[cfg(test)]`, `#[cfg(all(test, ..))]`, `#[test]`, `#[tokio::test]` ...
pub fn is_test_only(attrs: &[Attribute]) -> bool {
    attrs.iter().any(|a| {
        let path = a.path().segments.iter().map(|s| s.ident.to_string()).collect::<Vec<_>>().join("::");
        if path == "test" || path.ends_with("::test") {
            return true;
        }
        if path == "cfg" {
            let toks = a.meta.require_list().map(|l| l.tokens.to_string()).unwrap_or_default();
            let words: Vec<&str> = toks.split(|c: char| !(c.is_alphanumeric() || c == '_')).collect();
            return words.contains(&"test") && !words.contains(&"not");
        }
        false
    })
}

fn has_wasm_bindgen(attrs: &[Attribute]) -> bool {
    attrs.iter().any(|a| a.path().segments.last().map(|s| s.ident == "wasm_bindgen").unwrap_or(false))
}

/// every identifier occurring in a type (`Arc<RwLock<Blockchain>>` -> Arc, RwLock, Blockchain)
pub fn type_words(ty: &Type) -> Vec<String> {
    let s = quote::quote!(#ty).to_string();
    s.split(|c: char| !(c.is_alphanumeric() || c == '_')).filter(|w| !w.is_empty()).map(|w| w.to_string()).collect()
}

pub fn type_head(ty: &Type) -> Option<String> {
    match ty {
        Type::Path(p) => p.path.segments.last().map(|s| s.ident.to_string()),
        Type::Reference(r) => type_head(&r.elem),
        Type::Paren(p) => type_head(&p.elem),
        Type::Group(g) => type_head(&g.elem),
        _ => None,
    }
}

struct Collector<'a> {
    idx: &'a mut Index,
    raw_fields: Vec<((String, String), Vec<String>)>,
    raw_fns: Vec<(usize, Vec<(String, Vec<String>)>, Vec<String>, Vec<(String, Vec<String>)>)>, // fn, params(words), ret(words), generics
    trait_defaults: BTreeMap<String, Vec<usize>>,
}

impl<'a> Collector<'a> {
    fn generics_of(g: &syn::Generics) -> Vec<(String, Vec<String>)> {
        let mut out = vec![];
        for p in g.type_params() {
            let b = &p.bounds;
            let s = quote::quote!(#b).to_string();
            out.push((p.ident.to_string(), words(&s)));
        }
        if let Some(w) = &g.where_clause {
            for pred in &w.predicates {
                if let syn::WherePredicate::Type(t) = pred {
                    if let Some(h) = type_head(&t.bounded_ty) {
                        let b = &t.bounds;
                        out.push((h, words(&quote::quote!(#b).to_string())));
                    }
                }
            }
        }
        out
    }

    #[allow(clippy::too_many_arguments)]
    fn add_fn(&mut self, krate: &str, file: &str, stem: &str, self_ty: Option<&str>, trait_name: Option<&str>, outer: &str,
              attrs: &[Attribute], sig: &Signature, body: Option<&syn::Block>, wasm_ctx: bool, impl_generics: &[(String, Vec<String>)]) {
        let ident = sig.ident.to_string();
        let mut name = format!("{}::{}", krate, stem);
        if let Some(t) = self_ty.or(trait_name) {
            name = format!("{}::{}", name, t);
        }
        if !outer.is_empty() {
            name = format!("{}::{}", name, outer);
        }
        name = format!("{}::{}", name, ident);
        let mut params = vec![];
        let mut has_self = false;
        for a in &sig.inputs {
            match a {
                FnArg::Receiver(_) => has_self = true,
                FnArg::Typed(t) => {
                    let mut ids = vec![];
                    pat_idents(&t.pat, &mut ids);
                    for i in ids {
                        params.push((i, type_words(&t.ty)));
                    }
                }
            }
        }
        let ret = match &sig.output {
            ReturnType::Default => vec![],
            ReturnType::Type(_, t) => type_words(t),
        };
        let mut generics = Self::generics_of(&sig.generics);
        generics.extend_from_slice(impl_generics);
        let wasm_entry = krate == "saito_wasm" && (has_wasm_bindgen(attrs) || wasm_ctx);
        let id = self.idx.fns.len();
        self.idx.fns.push(FnDef {
            name,
            krate: krate.to_string(),
            file: file.to_string(),
            self_ty: self_ty.map(|s| s.to_string()),
            trait_name: trait_name.map(|s| s.to_string()),
            ident: ident.clone(),
            has_self,
            nparams: sig.inputs.iter().filter(|a| matches!(a, FnArg::Typed(_))).count(),
            is_async: sig.asyncness.is_some(),
            wasm_entry,
            params: vec![],
            ret: vec![],
            body: body.cloned(),
        });
        self.raw_fns.push((id, params, ret, generics));
        if self_ty.is_none() {
            if let Some(t) = trait_name {
                if body.is_some() {
                    self.trait_defaults.entry(t.to_string()).or_default().push(id);
                }
            }
        }
        // nested fn items inside the body
        if let Some(b) = body {
            let outer2 = if outer.is_empty() { ident.clone() } else { format!("{}::{}", outer, ident) };
            self.nested(krate, file, stem, self_ty, &outer2, b);
        }
    }

    fn nested(&mut self, krate: &str, file: &str, stem: &str, self_ty: Option<&str>, outer: &str, b: &syn::Block) {
        struct V<'b, 'c> {
            c: &'b mut Collector<'c>,
            a: (String, String, String, Option<String>, String),
        }
        impl<'ast, 'b, 'c> syn::visit::Visit<'ast> for V<'b, 'c> {
            fn visit_item_fn(&mut self, f: &'ast syn::ItemFn) {
                if !is_test_only(&f.attrs) {
                    let (k, fi, st, ty, o) = self.a.clone();
                    self.c.add_fn(&k, &fi, &st, ty.as_deref(), None, &o, &f.attrs, &f.sig, Some(&f.block), false, &[]);
                }
            }
        }
        let mut v = V { c: self, a: (krate.into(), file.into(), stem.into(), self_ty.map(|s| s.to_string()), outer.into()) };
        syn::visit::visit_block(&mut v, b);
    }

    fn items(&mut self, krate: &str, file: &str, stem: &str, items: &[Item], dir: &Path, root: &Path) {
        for it in items {
            match it {
                Item::Fn(f) if !is_test_only(&f.attrs) => {
                    self.add_fn(krate, file, stem, None, None, "", &f.attrs, &f.sig, Some(&f.block), false, &[]);
                }
                Item::Impl(im) if !is_test_only(&im.attrs) => {
                    let ty = type_head(&im.self_ty).unwrap_or_else(|| "?".into());
                    let tr = im.trait_.as_ref().and_then(|(_, p, _)| p.segments.last().map(|s| s.ident.to_string()));
                    self.idx.types.insert(ty.clone());
                    if let Some(t) = &tr {
                        self.idx.trait_impls.entry(t.clone()).or_default().insert(ty.clone());
                    }
                    let wasm_ctx = has_wasm_bindgen(&im.attrs);
                    let g = Self::generics_of(&im.generics);
                    for ii in &im.items {
                        if let ImplItem::Fn(f) = ii {
                            if !is_test_only(&f.attrs) {
                                let exported = wasm_ctx && matches!(f.vis, syn::Visibility::Public(_));
                                self.add_fn(krate, file, stem, Some(&ty), tr.as_deref(), "", &f.attrs, &f.sig, Some(&f.block), exported, &g);
                            }
                        }
                    }
                }
                Item::Trait(t) if !is_test_only(&t.attrs) => {
                    let tn = t.ident.to_string();
                    self.idx.types.insert(tn.clone());
                    for ti in &t.items {
                        if let TraitItem::Fn(f) = ti {
                            self.add_fn(krate, file, stem, None, Some(&tn), "", &f.attrs, &f.sig, f.default.as_ref(), false, &[]);
                        }
                    }
                }
                Item::Struct(s) if !is_test_only(&s.attrs) => {
                    let sn = s.ident.to_string();
                    self.idx.types.insert(sn.clone());
                    for (i, f) in s.fields.iter().enumerate() {
                        let fname = f.ident.as_ref().map(|x| x.to_string()).unwrap_or_else(|| i.to_string());
                        self.raw_fields.push(((sn.clone(), fname), type_words(&f.ty)));
                    }
                }
                Item::Macro(m) if !is_test_only(&m.attrs) && m.mac.path.segments.last().map(|s| s.ident == "lazy_static").unwrap_or(false) => {
                    // lazy_static! { [pub] static ref NAME: Type = ..; }  ->  global NAME of that type
                    let ws = words(&m.mac.tokens.to_string());
                    let mut i = 0;
                    while i + 2 < ws.len() {
                        if ws[i] == "static" && ws[i + 1] == "ref" {
                            let name = ws[i + 2].clone();
                            let mut j = i + 3;
                            let mut tys = vec![];
                            while j < ws.len() && ws[j] != "static" {
                                tys.push(ws[j].clone());
                                j += 1;
                            }
                            self.raw_fields.push(((String::new(), name), tys));
                            i = j;
                        } else {
                            i += 1;
                        }
                    }
                }
                Item::Enum(e) if !is_test_only(&e.attrs) => {
                    self.idx.types.insert(e.ident.to_string());
                }
                Item::Mod(m) if !is_test_only(&m.attrs) => {
                    let mn = m.ident.to_string();
                    if let Some((_, inner)) = &m.content {
                        self.items(krate, file, stem, inner, dir, root);
                    } else {
                        let cands = [dir.join(format!("{}.rs", mn)), dir.join(&mn).join("mod.rs")];
                        let p = cands.iter().find(|p| p.exists()).unwrap_or_else(|| panic!("module {} not found under {:?}", mn, dir));
                        let sub = if p.ends_with("mod.rs") { dir.join(&mn) } else { dir.join(&mn) };
                        self.file(krate, p, &sub, root, &mn);
                    }
                }
                _ => {}
            }
        }
    }

    fn file(&mut self, krate: &str, path: &PathBuf, dir: &Path, root: &Path, stem: &str) {
        let rel = path.strip_prefix(root).unwrap().to_string_lossy().to_string();
        if self.idx.files.contains(&rel) {
            return;
        }
        self.idx.files.push(rel.clone());
        let text = fs::read_to_string(path).unwrap_or_else(|e| panic!("{:?}: {}", path, e));
        let ast = syn::parse_file(&text).unwrap_or_else(|e| panic!("{:?}: parse error {}", path, e));
        self.items(krate, &rel, stem, &ast.items, dir, root);
    }
}

fn words(s: &str) -> Vec<String> {
    s.split(|c: char| !(c.is_alphanumeric() || c == '_')).filter(|w| !w.is_empty()).map(|w| w.to_string()).collect()
}

pub fn pat_idents(p: &Pat, out: &mut Vec<String>) {
    match p {
        Pat::Ident(i) => {
            out.push(i.ident.to_string());
            if let Some((_, sub)) = &i.subpat {
                pat_idents(sub, out);
            }
        }
        Pat::Type(t) => pat_idents(&t.pat, out),
        Pat::Reference(r) => pat_idents(&r.pat, out),
        Pat::Paren(r) => pat_idents(&r.pat, out),
        Pat::Tuple(t) => t.elems.iter().for_each(|e| pat_idents(e, out)),
        Pat::TupleStruct(t) => t.elems.iter().for_each(|e| pat_idents(e, out)),
        Pat::Struct(s) => s.fields.iter().for_each(|f| pat_idents(&f.pat, out)),
        Pat::Slice(s) => s.elems.iter().for_each(|e| pat_idents(e, out)),
        Pat::Or(o) => o.cases.iter().for_each(|e| pat_idents(e, out)),
        _ => {}
    }
}

pub fn build(repo: &Path, crates: &[&str]) -> Index {
    let mut idx = Index::default();
    let mut c = Collector { idx: &mut idx, raw_fields: vec![], raw_fns: vec![], trait_defaults: BTreeMap::new() };
    for k in crates {
        let src = repo.join(k).join("src");
        for (root_file, stem) in [("lib.rs", "lib"), ("main.rs", "main")] {
            let p = src.join(root_file);
            if p.exists() {
                c.file(&k.replace('-', "_"), &p, &src, repo, stem);
            }
        }
    }
    let (raw_fields, raw_fns, trait_defaults) = (c.raw_fields, c.raw_fns, c.trait_defaults);
    // keep only names of parsed types (generic parameters are replaced by their trait bounds)
    let types = idx.types.clone();
    let keep = |ws: &[String], generics: &[(String, Vec<String>)]| -> Vec<String> {
        let mut out: Vec<String> = vec![];
        for w in ws {
            if types.contains(w) {
                out.push(w.clone());
            }
            for (g, bounds) in generics {
                if g == w {
                    out.extend(bounds.iter().filter(|b| types.contains(*b)).cloned());
                }
            }
        }
        out.sort();
        out.dedup();
        out
    };
    for (k, ws) in raw_fields {
        idx.fields.insert(k, keep(&ws, &[]));
    }
    for (id, params, ret, generics) in raw_fns {
        let self_ty = idx.fns[id].self_ty.clone();
        idx.fns[id].params = params.iter().map(|(n, ws)| (n.clone(), keep(ws, &generics))).collect();
        let mut r = keep(&ret, &generics);
        if ret.iter().any(|w| w == "Self") {
            r.extend(self_ty);
        }
        idx.fns[id].ret = r;
    }
    for (i, f) in idx.fns.iter().enumerate() {
        idx.by_name.entry(f.ident.clone()).or_default().push(i);
        let stem = f.name.split("::").nth(1).unwrap().to_string();
        match (&f.self_ty, &f.trait_name) {
            (Some(t), tr) => {
                idx.by_type.entry((t.clone(), f.ident.clone())).or_default().push(i);
                if let Some(tr) = tr {
                    idx.by_type.entry((tr.clone(), f.ident.clone())).or_default().push(i);
                }
            }
            (None, Some(tr)) => idx.by_type.entry((tr.clone(), f.ident.clone())).or_default().push(i),
            (None, None) => {
                idx.by_type.entry((String::new(), f.ident.clone())).or_default().push(i);
                idx.by_type.entry((stem, f.ident.clone())).or_default().push(i);
            }
        }
    }
    // default methods of a trait are methods of every implementing type that does not override them
    for (tr, defaults) in &trait_defaults {
        for ty in idx.trait_impls.get(tr).cloned().unwrap_or_default() {
            for &d in defaults {
                let key = (ty.clone(), idx.fns[d].ident.clone());
                if !idx.by_type.contains_key(&key) {
                    idx.by_type.insert(key, vec![d]);
                }
            }
        }
    }
    idx
}
