//! srcfacts <repo> <outdir>
//!
//! Regenerates, from the Rust sources of saito-core / saito-rust / saito-spammer /
//! saito-wasm as they are now, the facts the Coq development is checked
//! against.  Currently: `<outdir>/LockGraph.v` (property C20).
//!
//! Output is deterministic (functions sorted by name) and free of line numbers:
//! an acquisition site is `function#k` (k-th acquisition in the function, in
//! source order), a call site is `function#ck`.
//!
//! Exit status is non-zero, with a message, when a cross-check fails:
//!  (i)  per file, the number of `Acq` events must equal an independent textual
//!       count of `.read().await` / `.write().await` / `.lock().await`;
//!  (ii) hand-verified golden paths must be present in the extracted graph;
//!  (iii) anything the walker does not understand (unknown expression kind,
//!       macro body with an acquisition it could not parse, conflicting lock
//!       classification, a lock name outside the reviewed list, a guard that escapes its function,
//!       `.read()/.write()/.lock()` not awaited in place, try_* / blocking_* / *_owned lock methods).

mod golden;
mod index;
mod panics;
mod scan;
mod walk;

use std::collections::{BTreeMap, BTreeSet};
use std::fmt::Write as _;
use std::path::Path;
use walk::Ev;

const CRATES: &[&str] = &["saito-core", "saito-rust", "saito-spammer", "saito-wasm"];

/// Receivers of `.read()/.write()/.lock().await` that are NOT one of the five shared
/// locks nor the wasm gate; reviewed by hand (see DESIGN 8, C20).  A new name fails the run.
const OTHER_LOCKS: &[&str] = &[
    "network_controller_lock", // saito-rust: Arc<RwLock<NetworkController>> (documented rank 1, not part of C20)
    "io_controller",           // same lock, parameter name
    "clone",                   // same lock, `let clone = network_controller_lock.clone()`
    "sockets",                 // saito-rust: Arc<Mutex<HashMap<..socket senders..>>> (documented rank 2)
    "current_queries",         // saito-rust: Arc<Mutex<HashSet<Url>>> of in-flight block fetches
    "TEST_RNG",                // saito-core crypto.rs: deterministic rng used with feature/test only
];

/// `crate::file::Type::f` -> `Type::f` (for the comments in the generated file)
fn short(name: &str) -> String {
    let parts: Vec<&str> = name.split("::").collect();
    parts[2.min(parts.len() - 1)..].join("::")
}

fn coq_str(s: &str) -> String {
    format!("\"{}\"", s.replace('"', "\"\""))
}

fn main() {
    let args: Vec<String> = std::env::args().collect();
    if args.len() != 3 {
        eprintln!("usage: srcfacts <repo> <outdir>");
        std::process::exit(2);
    }
    let repo = Path::new(&args[1]);
    let outdir = Path::new(&args[2]);
    let mut errors: Vec<String> = vec![];

    // ---- pass 1 + 2 ----
    let idx = index::build(repo, CRATES);
    let mut outs: Vec<walk::Out> = vec![];
    let mut log: Vec<String> = vec![];
    let mut unclassified = BTreeSet::new();
    let mut unparsed = BTreeSet::new();
    let mut ambiguous = BTreeSet::new();
    let mut dropped: BTreeSet<usize> = BTreeSet::new();
    for f in &idx.fns {
        let (o, mut l, mut u, mut m, mut a, mut d) = walk::walk_fn(&idx, f);
        dropped.append(&mut d);
        outs.extend(o);
        log.append(&mut l);
        unclassified.append(&mut u);
        unparsed.append(&mut m);
        ambiguous.append(&mut a);
    }
    // function ids: position (1-based) in the list sorted by name; duplicate names are an error
    let mut order: Vec<usize> = (0..outs.len()).collect();
    order.sort_by(|&a, &b| outs[a].name.cmp(&outs[b].name));
    for w in order.windows(2) {
        if outs[w[0]].name == outs[w[1]].name {
            errors.push(format!("duplicate function name {}", outs[w[0]].name));
        }
    }
    // callee indices refer to idx.fns; tasks were appended after their parent, so map through names
    let id_of_name: BTreeMap<&str, usize> = order.iter().enumerate().map(|(pos, &o)| (outs[o].name.as_str(), pos + 1)).collect();
    let callee_id = |f: usize| -> usize { id_of_name[idx.fns[f].name.as_str()] };

    // ---- cross-check (i): acquisition counts per file ----
    let (text, unsupported_forms) = scan::text_counts(repo, CRATES);
    for u in unsupported_forms {
        errors.push(format!("unsupported acquisition form: {}", u));
    }
    let mut ast: BTreeMap<String, usize> = idx.files.iter().map(|f| (f.clone(), 0)).collect();
    for o in &outs {
        *ast.entry(o.file.clone()).or_default() += o.events.iter().filter(|e| matches!(e, Ev::Acq { .. })).count();
    }
    let files: BTreeSet<&String> = text.keys().chain(ast.keys()).collect();
    for f in files {
        let (t, a) = (text.get(f).copied().unwrap_or(0), ast.get(f).copied().unwrap_or(0));
        if t != a {
            errors.push(format!("cross-check (i) failed for {}: textual scan finds {} acquisitions, syntax-tree walk finds {}", f, t, a));
        }
    }

    // ---- cross-check (iii): things the walker does not understand ----
    for l in &log {
        if l.starts_with("ERROR") {
            errors.push(l.clone());
        }
    }
    for m in &unparsed {
        if m.contains("CONTAINS-ACQUISITION") {
            errors.push(format!("macro body with a lock acquisition could not be parsed: {}", m));
        }
    }
    for u in &unclassified {
        if !OTHER_LOCKS.contains(&u.as_str()) {
            errors.push(format!("lock receiver `{}` is neither one of the shared locks nor in the reviewed OTHER_LOCKS list", u));
        }
    }

    // ---- cross-check (ii): golden paths ----
    for e in golden::check(&outs, &|f| idx.fns[f].name.clone()) {
        errors.push(format!("cross-check (ii) failed: {}", e));
    }

    // ---- LOCK_ORDER_* constants of defs.rs ----
    let defs = std::fs::read_to_string(repo.join("saito-core/src/core/defs.rs")).unwrap_or_default();
    let mut consts: Vec<(String, String)> = vec![];
    if let Ok(ast) = syn::parse_file(&defs) {
        for it in &ast.items {
            if let syn::Item::Const(c) = it {
                let n = c.ident.to_string();
                if n.starts_with("LOCK_ORDER_") {
                    if let syn::Expr::Lit(syn::ExprLit { lit: syn::Lit::Int(i), .. }) = &*c.expr {
                        consts.push((n, i.base10_digits().to_string()));
                    }
                }
            }
        }
    }
    consts.sort();
    if consts.len() < 5 {
        errors.push("LOCK_ORDER_* constants not found in saito-core/src/core/defs.rs".into());
    }

    // ---- emit LockGraph.v ----
    let mut v = String::new();
    v.push_str("(* GENERATED by /verif/srcfacts from the Rust sources in /repo -- do not edit.\n");
    v.push_str("   Lock-acquisition graph for property C20; datatypes in model/LockOrder.v. *)\n");
    v.push_str("From Coq Require Import List String NArith PArith.\nFrom Saito Require Import LockOrder.\nImport ListNotations.\nOpen Scope string_scope.\n\n");
    v.push_str("Definition lock_order_consts : list (string * N) := [\n");
    let cl: Vec<String> = consts.iter().map(|(n, x)| format!("  ({}, {}%N)", coq_str(n), x)).collect();
    v.push_str(&cl.join(";\n"));
    v.push_str("\n].\n\n");
    let (mut n_acq, mut n_call_ev, mut n_edges) = (0usize, 0usize, 0usize);
    v.push_str("Definition repo_graph : graph := [\n");
    let mut fns_txt = vec![];
    for (pos, &o) in order.iter().enumerate() {
        let f = &outs[o];
        let krate = match f.krate.as_str() {
            "saito_core" => "Core",
            "saito_rust" => "Node",
            "saito_spammer" => "Spammer",
            _ => "Wasm",
        };
        let kind = if f.is_task { "Task" } else if f.wasm_entry { "Export" } else { "Plain" };
        let mut evs = vec![];
        for e in &f.events {
            evs.push(match e {
                Ev::Acq { lock, write, site } => {
                    n_acq += 1;
                    format!("Acq {} {} {}", lock, if *write { "Write" } else { "Read" }, coq_str(site))
                }
                Ev::Rel { lock } => format!("Rel {}", lock),
                Ev::Hold { lock } => format!("Hold {}", lock),
                Ev::CallLocal { site, name } => {
                    n_call_ev += 1;
                    n_edges += 1;
                    format!("Call {} [{}]%positive (* {} *)", coq_str(site), id_of_name[name.as_str()], short(name))
                }
                Ev::Call { site, callees } => {
                    let mut ids: Vec<usize> = callees.iter().map(|&c| callee_id(c)).collect();
                    ids.sort();
                    ids.dedup();
                    n_call_ev += 1;
                    n_edges += ids.len();
                    let mut names: Vec<String> = callees.iter().map(|&c| short(&idx.fns[c].name)).collect();
                    names.sort();
                    names.dedup();
                    format!("Call {} [{}]%positive (* {} *)", coq_str(site), ids.iter().map(|i| i.to_string()).collect::<Vec<_>>().join("; "), names.join(" | "))
                }
            });
        }
        let mut t = String::new();
        write!(t, "  mkFn {}%positive {} {} {} [", pos + 1, coq_str(&f.name), krate, kind).unwrap();
        if !evs.is_empty() {
            t.push_str("\n    ");
            t.push_str(&evs.join(";\n    "));
        }
        t.push(']');
        fns_txt.push(t);
    }
    v.push_str(&fns_txt.join(";\n"));
    v.push_str("\n].\n\n");
    // functions that some call of the same name was deliberately NOT linked to (stop-list of ubiquitous std names,
    // or a qualifier that is a type of an external crate); the Coq check requires each of them to be free of shared locks
    let mut nl: Vec<usize> = dropped.iter().map(|&f| callee_id(f)).collect();
    nl.sort();
    v.push_str("(* functions that a same-named call was not linked to (stop-list / external qualifier): must be lock-free *)\n");
    write!(v, "Definition not_linked : list positive := [{}]%positive.\n", nl.iter().map(|i| i.to_string()).collect::<Vec<_>>().join("; ")).unwrap();
    std::fs::create_dir_all(outdir).expect("outdir");
    std::fs::write(outdir.join("LockGraph.v"), v).expect("write LockGraph.v");

    // ---- panic-site inventory for property C11: a second, independent output file (PanicSites.v); its own
    // cross-check result is recorded inside that file and never changes the exit status of this run
    match std::panic::catch_unwind(|| panics::emit(repo, outdir)) {
        Ok(line) => println!("{}", line),
        Err(_) => println!("PANICSITES-ERROR: the panic-site scanner itself panicked; PanicSites.v not updated"),
    }

    // ---- report ----
    println!("srcfacts: {} files, {} functions (+{} spawned-task roots), {} acquisition sites, {} call events, {} call edges",
             idx.files.len(), idx.fns.len(), outs.len() - idx.fns.len(), n_acq, n_call_ev, n_edges);
    // machine-readable (for bin/check evidence)
    println!("SRCFACTS-STATS files={} functions={} task_roots={} acquisition_sites={} call_events={} call_edges={} not_linked={}",
             idx.files.len(), idx.fns.len(), outs.len() - idx.fns.len(), n_acq, n_call_ev, n_edges, dropped.len());
    println!("locks outside C20 (reviewed list): {:?}", unclassified);
    println!("macros not parsed as expressions (no acquisition inside): {:?}", unparsed);
    for l in &log {
        if !l.starts_with("ERROR") {
            println!("note: {}", l);
        }
    }
    if std::env::var("SRCFACTS_VERBOSE").is_ok() {
        for a in &ambiguous {
            println!("ambiguous: {}", a);
        }
    }
    println!("calls resolved by name only to more than one candidate: {}; functions not linked by the stop-list / external qualifiers (checked lock-free in Coq): {}", ambiguous.len(), dropped.len());
    if !errors.is_empty() {
        for e in &errors {
            println!("SRCFACTS-ERROR: {}", e);
        }
        std::process::exit(1);
    }
    println!("cross-checks passed: per-file acquisition counts ({} files), golden paths, no unknown constructs", text.len());
}
