//! Panic-site inventory for property C11 (and C10): `<outdir>/PanicSites.v`.
//!
//! For the non-test functions of the peer-facing files of saito-core (the three
//! event handlers, the network / mempool / peer code and the decoders they
//! call) every place where the code can panic on purpose is listed:
//!
//!   `.unwrap()`  `.expect(..)`  `assert!`-family  `unreachable!`  `panic!`
//!   `todo!`  `unimplemented!`  `a[i]` (index)  `a[i..j]` (slice)
//!
//! A site is named `file::Type::function#k-kind` (k-th site of that function in
//! source order; no line numbers, so unrelated edits do not rename sites).
//! Sites inside the arguments of a `log` macro carry the level (`unwrap@debug`):
//! they only run when that level is enabled.
//!
//! Self-contained on purpose (shares nothing with the lock-graph walker).  The
//! AST walk is cross-checked against an independent textual count per file and
//! kind; the result of the cross-check is written INTO the generated file
//! (`crosscheck_ok`), which the Coq obligation of C11 requires to be `true`, so
//! a failure fails C11 and never the lock-graph output of `srcfacts`.

use std::collections::BTreeMap;
use std::fmt::Write as _;
use std::path::Path;

use syn::punctuated::Punctuated;
use syn::visit::Visit;
use syn::{Attribute, Expr, ImplItem, Item, Token};

/// (file relative to saito-core/src/core, functions to scan: None = every non-test function,
/// Some(prefixes) = only functions whose name starts with one of the prefixes)
const FILES: &[(&str, Option<&[&str]>)] = &[
    ("routing_thread.rs", None),
    ("verification_thread.rs", None),
    ("consensus_thread.rs", None),
    ("io/network.rs", None),
    ("consensus/mempool.rs", None),
    ("consensus/peers/peer.rs", None),
    ("consensus/peers/peer_collection.rs", None),
    ("consensus/peers/peer_service.rs", None),
    ("consensus/peers/peer_state_writer.rs", None),
    ("consensus/peers/rate_limiter.rs", None),
    // the decoders the handlers call
    ("msg/message.rs", None),
    ("msg/handshake.rs", None),
    ("msg/block_request.rs", None),
    ("msg/ghost_chain_sync.rs", None),
    ("msg/api_message.rs", None),
    ("process/version.rs", None),
    ("consensus/golden_ticket.rs", None),
    ("consensus/block.rs", Some(&["deserialize"])),
    ("consensus/transaction.rs", Some(&["deserialize"])),
    ("consensus/slip.rs", Some(&["deserialize", "parse_slip"])),
    ("consensus/hop.rs", Some(&["deserialize"])),
];

const LOG_MACROS: &[&str] = &["trace", "debug", "info", "warn", "error"];
const PANIC_MACROS: &[(&str, &str)] = &[
    ("assert", "assert"),
    ("assert_eq", "assert"),
    ("assert_ne", "assert"),
    ("debug_assert", "debug_assert"),
    ("debug_assert_eq", "debug_assert"),
    ("debug_assert_ne", "debug_assert"),
    ("unreachable", "unreachable"),
    ("panic", "panic"),
    ("todo", "todo"),
    ("unimplemented", "unimplemented"),
];

fn is_test_only(attrs: &[Attribute]) -> bool {
    attrs.iter().any(|a| {
        let path = a.path().segments.iter().map(|s| s.ident.to_string()).collect::<Vec<_>>().join("::");
        if path == "test" || path.ends_with("::test") {
            return true;
        }
        if path == "cfg" {
            let toks = a.meta.require_list().map(|l| l.tokens.to_string()).unwrap_or_default();
            let words: Vec<&str> = toks.split(|c: char| !(c.is_alphanumeric() || c == '_')).collect();
            return words.contains(&"test") && !words.contains(&"not");
        }
        false
    })
}

struct FnWalk {
    prefix: String,
    counter: usize,
    sites: Vec<String>,
    /// line of each site (only used for the optional review listing, never written to PanicSites.v)
    lines: Vec<usize>,
    cur_line: usize,
    /// innermost enclosing log macro, if any
    log: Option<String>,
    unparsed_macros: Vec<String>,
}

impl FnWalk {
    fn site(&mut self, kind: &str) {
        self.counter += 1;
        let k = match &self.log {
            Some(l) => format!("{}@{}", kind, l),
            None => kind.to_string(),
        };
        self.sites.push(format!("{}#{}-{}", self.prefix, self.counter, k));
        self.lines.push(self.cur_line);
    }
    fn macro_body(&mut self, mac: &syn::Macro) {
        let name = mac.path.segments.last().map(|s| s.ident.to_string()).unwrap_or_default();
        if let Some(seg) = mac.path.segments.last() {
            self.cur_line = seg.ident.span().start().line;
        }
        if let Some((_, kind)) = PANIC_MACROS.iter().find(|(n, _)| *n == name) {
            self.site(kind);
        }
        let saved = self.log.clone();
        if LOG_MACROS.contains(&name.as_str()) {
            self.log = Some(name.clone());
        }
        // arguments: comma-separated expressions (log / format / assert / vec / matches ...)
        match mac.parse_body_with(Punctuated::<Expr, Token![,]>::parse_terminated) {
            Ok(args) => {
                for e in args.iter() {
                    self.visit_expr(e);
                }
            }
            Err(_) => {
                // e.g. `matches!(x, Pat)`, `select!`: fall back to a token scan of the body
                let toks = mac.tokens.to_string();
                let n = count_token_sites(&toks);
                for (kind, c) in n {
                    for _ in 0..c {
                        self.site(&kind);
                    }
                }
                self.unparsed_macros.push(name);
            }
        }
        self.log = saved;
    }
}

/// `. unwrap (` / `. expect (` / panic macros in a token string (proc_macro2 prints tokens separated by spaces)
fn count_token_sites(toks: &str) -> Vec<(String, usize)> {
    let sq: String = toks.chars().filter(|c| !c.is_whitespace()).collect();
    let mut v = vec![];
    v.push(("unwrap".to_string(), sq.matches(".unwrap()").count()));
    v.push(("expect".to_string(), sq.matches(".expect(").count()));
    for (n, kind) in PANIC_MACROS {
        let pat = format!("{}!", n);
        let mut c = 0;
        let mut start = 0;
        while let Some(p) = sq[start..].find(&pat) {
            let at = start + p;
            let before_ok = at == 0 || !sq[..at].chars().last().map(|ch| ch.is_alphanumeric() || ch == '_').unwrap_or(false);
            if before_ok {
                c += 1;
            }
            start = at + pat.len();
        }
        if c > 0 {
            v.push((kind.to_string(), c));
        }
    }
    v.retain(|(_, c)| *c > 0);
    v
}

impl<'ast> Visit<'ast> for FnWalk {
    fn visit_expr_method_call(&mut self, e: &'ast syn::ExprMethodCall) {
        // receiver first (source order), then this call, then arguments
        self.visit_expr(&e.receiver);
        self.cur_line = e.method.span().start().line;
        let m = e.method.to_string();
        if m == "unwrap" && e.args.is_empty() {
            self.site("unwrap");
        } else if m == "expect" && e.args.len() == 1 {
            self.site("expect");
        }
        for a in e.args.iter() {
            self.visit_expr(a);
        }
    }
    fn visit_expr_index(&mut self, e: &'ast syn::ExprIndex) {
        self.visit_expr(&e.expr);
        self.cur_line = e.bracket_token.span.open().start().line;
        match &*e.index {
            Expr::Range(_) => self.site("slice"),
            _ => self.site("index"),
        }
        self.visit_expr(&e.index);
    }
    fn visit_macro(&mut self, mac: &'ast syn::Macro) {
        self.macro_body(mac);
    }
    fn visit_item_fn(&mut self, _f: &'ast syn::ItemFn) {
        // nested fn items are rare; they would be collected as their own function by `collect`
    }
}

struct FileOut {
    /// function name -> sites
    fns: Vec<(String, Vec<String>)>,
    lines: Vec<(String, usize)>,
    unparsed: Vec<String>,
}

fn collect_fn(out: &mut FileOut, module: &str, owner: Option<&str>, name: &str, block: &syn::Block, filter: Option<&[&str]>) {
    if let Some(prefixes) = filter {
        if !prefixes.iter().any(|p| name.starts_with(p)) {
            return;
        }
    }
    let full = match owner {
        Some(o) => format!("{}::{}::{}", module, o, name),
        None => format!("{}::{}", module, name),
    };
    let mut w = FnWalk { prefix: full.clone(), counter: 0, sites: vec![], lines: vec![], cur_line: 0, log: None, unparsed_macros: vec![] };
    w.visit_block(block);
    out.lines.extend(w.sites.iter().cloned().zip(w.lines.iter().cloned()));
    out.unparsed.extend(w.unparsed_macros.iter().map(|m| format!("{}:{}", full, m)));
    out.fns.push((full, w.sites));
}

fn type_name(ty: &syn::Type) -> String {
    match ty {
        syn::Type::Path(p) => p.path.segments.last().map(|s| s.ident.to_string()).unwrap_or_default(),
        _ => "?".to_string(),
    }
}

fn collect_items(out: &mut FileOut, module: &str, items: &[Item], filter: Option<&[&str]>) {
    for it in items {
        match it {
            Item::Fn(f) if !is_test_only(&f.attrs) => collect_fn(out, module, None, &f.sig.ident.to_string(), &f.block, filter),
            Item::Impl(im) if !is_test_only(&im.attrs) => {
                let mut owner = type_name(&im.self_ty);
                if let Some((_, tr, _)) = &im.trait_ {
                    let t = tr.segments.last().map(|s| s.ident.to_string()).unwrap_or_default();
                    owner = format!("{}<{}>", owner, t).replace('<', "_as_").replace('>', "");
                }
                for ii in &im.items {
                    if let ImplItem::Fn(m) = ii {
                        if !is_test_only(&m.attrs) {
                            collect_fn(out, module, Some(&owner), &m.sig.ident.to_string(), &m.block, filter);
                        }
                    }
                }
            }
            Item::Trait(t) if !is_test_only(&t.attrs) => {
                for ti in &t.items {
                    if let syn::TraitItem::Fn(m) = ti {
                        if let Some(b) = &m.default {
                            collect_fn(out, module, Some(&t.ident.to_string()), &m.sig.ident.to_string(), b, filter);
                        }
                    }
                }
            }
            Item::Mod(m) if !is_test_only(&m.attrs) => {
                if let Some((_, items)) = &m.content {
                    collect_items(out, &format!("{}::{}", module, m.ident), items, filter);
                }
            }
            _ => {}
        }
    }
}

// ---------------------------------------------------------------- independent textual count

fn blank(src: &str) -> String {
    // comments, string and char literals -> spaces (same idea as scan.rs, written independently of syn)
    let b: Vec<char> = src.chars().collect();
    let mut out = String::with_capacity(src.len());
    let mut i = 0;
    let is_ident = |c: char| c.is_alphanumeric() || c == '_';
    while i < b.len() {
        let c = b[i];
        let nxt = if i + 1 < b.len() { b[i + 1] } else { '\0' };
        if c == '/' && nxt == '/' {
            while i < b.len() && b[i] != '\n' {
                out.push(' ');
                i += 1;
            }
        } else if c == '/' && nxt == '*' {
            let mut depth = 0;
            while i < b.len() {
                if b[i] == '/' && i + 1 < b.len() && b[i + 1] == '*' {
                    depth += 1;
                    out.push_str("  ");
                    i += 2;
                } else if b[i] == '*' && i + 1 < b.len() && b[i + 1] == '/' {
                    depth -= 1;
                    out.push_str("  ");
                    i += 2;
                    if depth == 0 {
                        break;
                    }
                } else {
                    out.push(if b[i] == '\n' { '\n' } else { ' ' });
                    i += 1;
                }
            }
        } else if c == 'r' && (nxt == '"' || nxt == '#') && (i == 0 || !is_ident(b[i - 1])) {
            let mut j = i + 1;
            let mut hashes = 0;
            while j < b.len() && b[j] == '#' {
                hashes += 1;
                j += 1;
            }
            if j < b.len() && b[j] == '"' {
                j += 1;
                loop {
                    if j >= b.len() {
                        break;
                    }
                    if b[j] == '"' {
                        let mut k = 0;
                        while k < hashes && j + 1 + k < b.len() && b[j + 1 + k] == '#' {
                            k += 1;
                        }
                        if k == hashes {
                            j += 1 + hashes;
                            break;
                        }
                    }
                    j += 1;
                }
                for _ in i..j {
                    out.push(' ');
                }
                i = j;
            } else {
                out.push(c);
                i += 1;
            }
        } else if c == '"' {
            out.push(' ');
            i += 1;
            while i < b.len() && b[i] != '"' {
                if b[i] == '\\' {
                    out.push(' ');
                    i += 1;
                }
                out.push(if i < b.len() && b[i] == '\n' { '\n' } else { ' ' });
                i += 1;
            }
            out.push(' ');
            i += 1;
        } else if c == '\'' {
            if nxt == '\\' {
                let mut j = i + 3;
                while j < b.len() && b[j] != '\'' {
                    j += 1;
                }
                for _ in i..=j.min(b.len() - 1) {
                    out.push(' ');
                }
                i = j + 1;
            } else if i + 2 < b.len() && b[i + 2] == '\'' {
                out.push_str("   ");
                i += 3;
            } else {
                out.push(c);
                i += 1;
            }
        } else {
            out.push(c);
            i += 1;
        }
    }
    out
}

/// cut every item introduced by a test attribute, by brace matching
fn cut_tests(text: &str) -> String {
    let b: Vec<char> = text.chars().collect();
    let mut out = String::new();
    let mut i = 0;
    while i < b.len() {
        if b[i] == '#' {
            let mut j = i + 1;
            while j < b.len() && b[j].is_whitespace() {
                j += 1;
            }
            if j < b.len() && b[j] == '[' {
                let start = j;
                let mut depth = 0;
                while j < b.len() {
                    if b[j] == '[' {
                        depth += 1;
                    } else if b[j] == ']' {
                        depth -= 1;
                        if depth == 0 {
                            break;
                        }
                    }
                    j += 1;
                }
                let attr: String = b[start..=j.min(b.len() - 1)].iter().filter(|c| !c.is_whitespace()).collect();
                let has_test_word = attr.split(|c: char| !(c.is_alphanumeric() || c == '_')).any(|w| w == "test");
                let is_test = (attr.starts_with("[cfg(") && has_test_word && !attr.contains("not(")) || attr == "[test]" || attr.starts_with("[tokio::test");
                if is_test {
                    let mut k = j + 1;
                    let mut depth = 0i32;
                    while k < b.len() {
                        match b[k] {
                            '{' | '(' | '[' => depth += 1,
                            ')' | ']' => depth -= 1,
                            '}' => {
                                depth -= 1;
                                if depth == 0 {
                                    k += 1;
                                    break;
                                }
                            }
                            ';' if depth == 0 => {
                                k += 1;
                                break;
                            }
                            _ => {}
                        }
                        k += 1;
                    }
                    i = k;
                    continue;
                }
            }
        }
        out.push(b[i]);
        i += 1;
    }
    out
}

fn text_counts(src: &str) -> BTreeMap<String, usize> {
    let t = cut_tests(&blank(src));
    let mut m: BTreeMap<String, usize> = BTreeMap::new();
    for (k, c) in count_token_sites(&t) {
        *m.entry(k).or_insert(0) += c;
    }
    m
}

fn ast_counts(sites: &[String]) -> BTreeMap<String, usize> {
    let mut m: BTreeMap<String, usize> = BTreeMap::new();
    for s in sites {
        let kind = s.rsplit('-').next().unwrap_or("").split('@').next().unwrap_or("").to_string();
        if kind == "index" || kind == "slice" {
            continue;
        }
        *m.entry(kind).or_insert(0) += 1;
    }
    m
}

fn coq_str(s: &str) -> String {
    format!("\"{}\"", s.replace('"', "\"\""))
}

/// Writes `<outdir>/PanicSites.v`; returns a one-line report. Never panics the caller's run:
/// problems are recorded in the generated file (`crosscheck_ok := false`, `problems`).
pub fn emit(repo: &Path, outdir: &Path) -> String {
    let core = repo.join("saito-core/src/core");
    let mut all_sites: Vec<String> = vec![];
    let mut fn_count = 0usize;
    let mut problems: Vec<String> = vec![];
    let mut per_file: Vec<(String, usize)> = vec![];
    for (rel, filter) in FILES {
        let p = core.join(rel);
        let text = match std::fs::read_to_string(&p) {
            Ok(t) => t,
            Err(_) => {
                problems.push(format!("missing file {}", rel));
                continue;
            }
        };
        let ast = match syn::parse_file(&text) {
            Ok(a) => a,
            Err(e) => {
                problems.push(format!("cannot parse {}: {}", rel, e));
                continue;
            }
        };
        let module = rel.trim_end_matches(".rs").replace('/', "::");
        let mut out = FileOut { fns: vec![], lines: vec![], unparsed: vec![] };
        collect_items(&mut out, &module, &ast.items, *filter);
        if let Ok(path) = std::env::var("PANICSITES_REVIEW") {
            // optional listing for the human who reviews coq/model/PanicClass.v: site, file:line, source text
            use std::io::Write as _;
            if let Ok(mut f) = std::fs::OpenOptions::new().create(true).append(true).open(path) {
                let src_lines: Vec<&str> = text.lines().collect();
                for (site, line) in &out.lines {
                    let _ = writeln!(f, "{}\t{}:{}\t{}", site, rel, line, src_lines.get(line.wrapping_sub(1)).map(|l| l.trim()).unwrap_or(""));
                }
            }
        }
        let mut seen: BTreeMap<String, usize> = BTreeMap::new();
        let mut file_sites = vec![];
        for (name, sites) in &out.fns {
            // two functions of one name in a file (e.g. trait impls for two types are already told apart by the type)
            let n = seen.entry(name.clone()).or_insert(0);
            *n += 1;
            if *n > 1 {
                problems.push(format!("duplicate function name {}", name));
            }
            fn_count += 1;
            file_sites.extend(sites.iter().cloned());
        }
        // cross-check against the textual scan: only for files scanned completely
        if filter.is_none() {
            let t = text_counts(&text);
            let a = ast_counts(&file_sites);
            let kinds: std::collections::BTreeSet<&String> = t.keys().chain(a.keys()).collect();
            for k in kinds {
                let (tc, ac) = (t.get(k).copied().unwrap_or(0), a.get(k).copied().unwrap_or(0));
                if tc != ac {
                    problems.push(format!("{}: textual scan finds {} `{}` sites in non-test code, syntax-tree walk finds {}", rel, tc, k, ac));
                }
            }
        }
        per_file.push((rel.to_string(), file_sites.len()));
        all_sites.extend(file_sites);
    }
    let mut v = String::new();
    v.push_str("(* GENERATED by /verif/srcfacts (panics.rs) from the Rust sources in /repo -- do not edit.\n");
    v.push_str("   Panic-site inventory of the peer-facing code for property C11: every unwrap / expect / assert-family /\n");
    v.push_str("   unreachable / panic / todo / unimplemented / index / slice site of the non-test functions, named\n");
    v.push_str("   file::Type::function#k-kind (k-th site of the function in source order). *)\n");
    v.push_str("From Coq Require Import List String.\nImport ListNotations.\nOpen Scope string_scope.\n\n");
    v.push_str("Definition sites : list string := [\n");
    let lines: Vec<String> = all_sites.iter().map(|s| format!("  {}", coq_str(s))).collect();
    v.push_str(&lines.join(";\n"));
    v.push_str("\n].\n\n");
    writeln!(v, "(* the syntax-tree walk agrees with an independent textual count per file and kind, and every file parsed *)").unwrap();
    writeln!(v, "Definition crosscheck_ok : bool := {}.", if problems.is_empty() { "true" } else { "false" }).unwrap();
    v.push_str("Definition problems : list string := [");
    v.push_str(&problems.iter().map(|p| coq_str(p)).collect::<Vec<_>>().join("; "));
    v.push_str("].\n");
    writeln!(v, "Definition scanned_functions : nat := {}.", fn_count).unwrap();
    let _ = std::fs::create_dir_all(outdir);
    if let Err(e) = std::fs::write(outdir.join("PanicSites.v"), v) {
        return format!("PANICSITES-ERROR: cannot write PanicSites.v: {}", e);
    }
    format!(
        "PANICSITES-STATS files={} functions={} sites={} problems={} per_file={:?}",
        per_file.len(),
        fn_count,
        all_sites.len(),
        problems.len(),
        per_file
    )
}
