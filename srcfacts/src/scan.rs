//! Cross-check (i) of DESIGN 5.1: an independent, purely textual count of lock
//! acquisitions (`.read().await`, `.write().await`, `.lock().await`) per source
//! file in non-test code.  Shares nothing with the syn-based walker: it works
//! on characters (comments and literals blanked, `#[cfg(test)]` items cut out
//! by brace matching) and on a plain directory listing.

use std::collections::{BTreeMap, BTreeSet};
use std::fs;
use std::path::{Path, PathBuf};

/// Replace comments, string literals and char literals by spaces.
fn blank_comments_and_literals(src: &str) -> String {
    let b: Vec<char> = src.chars().collect();
    let mut out = String::with_capacity(src.len());
    let mut i = 0;
    while i < b.len() {
        let c = b[i];
        let nxt = if i + 1 < b.len() { b[i + 1] } else { '\0' };
        if c == '/' && nxt == '/' {
            while i < b.len() && b[i] != '\n' {
                out.push(' ');
                i += 1;
            }
        } else if c == '/' && nxt == '*' {
            let mut depth = 0;
            while i < b.len() {
                if b[i] == '/' && i + 1 < b.len() && b[i + 1] == '*' {
                    depth += 1;
                    out.push_str("  ");
                    i += 2;
                } else if b[i] == '*' && i + 1 < b.len() && b[i + 1] == '/' {
                    depth -= 1;
                    out.push_str("  ");
                    i += 2;
                    if depth == 0 {
                        break;
                    }
                } else {
                    out.push(if b[i] == '\n' { '\n' } else { ' ' });
                    i += 1;
                }
            }
        } else if c == 'r' && (nxt == '"' || nxt == '#') && (i == 0 || !is_ident(b[i - 1])) {
            // raw string r"..." / r#"..."#
            let mut j = i + 1;
            let mut hashes = 0;
            while j < b.len() && b[j] == '#' {
                hashes += 1;
                j += 1;
            }
            if j < b.len() && b[j] == '"' {
                j += 1;
                loop {
                    if j >= b.len() {
                        break;
                    }
                    if b[j] == '"' {
                        let mut k = 0;
                        while k < hashes && j + 1 + k < b.len() && b[j + 1 + k] == '#' {
                            k += 1;
                        }
                        if k == hashes {
                            j += 1 + hashes;
                            break;
                        }
                    }
                    j += 1;
                }
                for _ in i..j {
                    out.push(' ');
                }
                i = j;
            } else {
                out.push(c);
                i += 1;
            }
        } else if c == '"' {
            out.push(' ');
            i += 1;
            while i < b.len() && b[i] != '"' {
                if b[i] == '\\' {
                    out.push(' ');
                    i += 1;
                }
                out.push(if i < b.len() && b[i] == '\n' { '\n' } else { ' ' });
                i += 1;
            }
            out.push(' ');
            i += 1;
        } else if c == '\'' {
            // char literal ('x', '\n', '\u{..}') or lifetime ('a)
            if nxt == '\\' {
                let mut j = i + 3; // skip the escaped character itself
                while j < b.len() && b[j] != '\'' {
                    j += 1;
                }
                for _ in i..=j.min(b.len() - 1) {
                    out.push(' ');
                }
                i = j + 1;
            } else if i + 2 < b.len() && b[i + 2] == '\'' {
                out.push_str("   ");
                i += 3;
            } else {
                out.push(c);
                i += 1;
            }
        } else {
            out.push(c);
            i += 1;
        }
    }
    out
}

fn is_ident(c: char) -> bool {
    c.is_alphanumeric() || c == '_'
}

/// Cut every item introduced by `#[cfg(test)]` (any cfg mentioning `test`
/// without `not`), `#[test]` or `#[tokio::test]`.  Returns the remaining text
/// and the names of out-of-line modules (`mod x;`) that were cut.
fn cut_test_items(text: &str) -> (String, Vec<String>) {
    let b: Vec<char> = text.chars().collect();
    let mut out = String::new();
    let mut cut_mods = vec![];
    let mut i = 0;
    while i < b.len() {
        if b[i] == '#' {
            // read one attribute
            let mut j = i + 1;
            while j < b.len() && b[j].is_whitespace() {
                j += 1;
            }
            if j < b.len() && b[j] == '!' {
                j += 1;
            }
            if j < b.len() && b[j] == '[' {
                let start = j;
                let mut depth = 0;
                while j < b.len() {
                    if b[j] == '[' {
                        depth += 1;
                    } else if b[j] == ']' {
                        depth -= 1;
                        if depth == 0 {
                            break;
                        }
                    }
                    j += 1;
                }
                let attr: String = b[start..=j.min(b.len() - 1)].iter().filter(|c| !c.is_whitespace()).collect();
                let is_test = (attr.starts_with("[cfg(") && has_word(&attr, "test") && !attr.contains("not("))
                    || attr == "[test]"
                    || attr.starts_with("[tokio::test");
                if is_test {
                    // skip following attributes, then the item up to `;` or the matching `}`
                    let mut k = j + 1;
                    let item_start;
                    loop {
                        while k < b.len() && b[k].is_whitespace() {
                            k += 1;
                        }
                        if k < b.len() && b[k] == '#' {
                            let mut d = 0;
                            while k < b.len() {
                                if b[k] == '[' {
                                    d += 1;
                                } else if b[k] == ']' {
                                    d -= 1;
                                    if d == 0 {
                                        k += 1;
                                        break;
                                    }
                                }
                                k += 1;
                            }
                        } else {
                            item_start = k;
                            break;
                        }
                    }
                    let mut depth = 0i32;
                    while k < b.len() {
                        match b[k] {
                            '{' | '(' | '[' => depth += 1,
                            ')' | ']' => depth -= 1,
                            '}' => {
                                depth -= 1;
                                if depth == 0 {
                                    k += 1;
                                    break;
                                }
                            }
                            ';' if depth == 0 => {
                                k += 1;
                                break;
                            }
                            _ => {}
                        }
                        k += 1;
                    }
                    let item: String = b[item_start..k.min(b.len())].iter().collect();
                    let words: Vec<&str> = item.split(|c: char| !is_ident(c)).filter(|w| !w.is_empty()).collect();
                    if item.trim_end().ends_with(';') {
                        if let Some(p) = words.iter().position(|w| *w == "mod") {
                            if p + 2 >= words.len() && p + 1 < words.len() {
                                cut_mods.push(words[p + 1].to_string());
                            }
                        }
                    }
                    i = k;
                    continue;
                }
            }
        }
        out.push(b[i]);
        i += 1;
    }
    (out, cut_mods)
}

fn has_word(s: &str, w: &str) -> bool {
    s.split(|c: char| !is_ident(c)).any(|x| x == w)
}

fn count_acquisitions(text: &str) -> usize {
    let squeezed: String = text.chars().filter(|c| !c.is_whitespace()).collect();
    [".read().await", ".write().await", ".lock().await"].iter().map(|p| squeezed.matches(p).count()).sum()
}

/// Acquisition forms that neither this count nor the syntax-tree walk understands: a lock future that is
/// not awaited on the spot (`let f = l.write(); .. f.await`, `timeout(d, l.write()).await`), and the
/// non-async / owned variants.  Returns (number of `.read()/.write()/.lock()` not followed by `.await`,
/// names of unsupported methods that occur).
fn count_unsupported(text: &str) -> (usize, Vec<String>) {
    let squeezed: String = text.chars().filter(|c| !c.is_whitespace()).collect();
    let all: usize = [".read()", ".write()", ".lock()"].iter().map(|p| squeezed.matches(p).count()).sum();
    let mut bad = vec![];
    for m in ["try_read", "try_write", "try_lock", "blocking_read", "blocking_write", "blocking_lock", "read_owned", "write_owned",
              "lock_owned", "try_read_owned", "try_write_owned", "try_lock_owned"] {
        if squeezed.contains(&format!(".{}(", m)) {
            bad.push(m.to_string());
        }
    }
    (all - count_acquisitions(text), bad)
}

/// `.lock()` etc. without `.await` that were read and are not tokio locks: (file, how many)
const NOT_AWAITED_REVIEWED: &[(&str, usize)] = &[
    ("saito-rust/src/io_event.rs", 1), // EVENT_COUNTER: std::sync::Mutex<u64>, `.lock().unwrap()`, never held across an await
];

fn list_rs(dir: &Path, out: &mut Vec<PathBuf>) {
    let mut entries: Vec<PathBuf> = fs::read_dir(dir).map(|r| r.filter_map(|e| e.ok().map(|e| e.path())).collect()).unwrap_or_default();
    entries.sort();
    for p in entries {
        if p.is_dir() {
            list_rs(&p, out);
        } else if p.extension().map(|e| e == "rs").unwrap_or(false) {
            out.push(p);
        }
    }
}

/// file (relative to the repository) -> number of acquisition tokens in non-test code
pub fn text_counts(repo: &Path, crates: &[&str]) -> (BTreeMap<String, usize>, Vec<String>) {
    let mut res = BTreeMap::new();
    let mut unsupported: Vec<String> = vec![];
    for c in crates {
        let src = repo.join(c).join("src");
        let mut files = vec![];
        list_rs(&src, &mut files);
        let mut cut: BTreeSet<PathBuf> = BTreeSet::new(); // files / directories of `#[cfg(test)] mod x;`
        let mut counts = vec![];
        for f in &files {
            let text = fs::read_to_string(f).expect("read source");
            let (rest, cut_mods) = cut_test_items(&blank_comments_and_literals(&text));
            let stem = f.file_stem().unwrap().to_string_lossy().to_string();
            let base = if stem == "mod" || stem == "lib" || stem == "main" { f.parent().unwrap().to_path_buf() } else { f.parent().unwrap().join(&stem) };
            for m in cut_mods {
                cut.insert(base.join(format!("{}.rs", m)));
                cut.insert(base.join(&m));
            }
            let mut msgs: Vec<String> = vec![];
            let rel = f.strip_prefix(repo).unwrap().to_string_lossy().to_string();
            let (not_awaited, bad) = count_unsupported(&rest);
            let reviewed = NOT_AWAITED_REVIEWED.iter().find(|(p, _)| *p == rel).map(|(_, n)| *n).unwrap_or(0);
            if not_awaited != reviewed {
                msgs.push(format!("{}: {} `.read()/.write()/.lock()` without `.await` in non-test code ({} reviewed): a lock future awaited elsewhere, or a non-tokio lock, is not analysed", rel, not_awaited, reviewed));
            }
            for m in bad {
                msgs.push(format!("{}: `.{}(..)` is an acquisition form the translator does not analyse", rel, m));
            }
            counts.push((f.clone(), count_acquisitions(&rest), msgs));
        }
        for (f, n, mut msgs) in counts {
            if cut.iter().any(|c| f.starts_with(c)) {
                continue;
            }
            unsupported.append(&mut msgs);
            res.insert(f.strip_prefix(repo).unwrap().to_string_lossy().to_string(), n);
        }
    }
    (res, unsupported)
}
