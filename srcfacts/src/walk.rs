//! Pass 2: walk one function body in evaluation order and produce its event
//! list.  Guard live ranges follow Rust's drop rules, erring on the long side:
//!
//!  * `let g = <lock>.read().await;` (also through parens, casts, tuple/struct
//!    operands and block tails, and `let r = &<lock>.read().await.field` etc.:
//!    temporary lifetime extension under a `&`)
//!    -> held until the end of the enclosing block or an explicit `drop(g)`;
//!  * an acquisition used as a receiver / operand inside a larger expression is
//!    a temporary -> held until the end of the enclosing statement (for the
//!    scrutinee of `if let` / `match` / `while let` / `for`: until the end of
//!    that whole expression's statement; for a plain `if`/`while` condition:
//!    until the condition has been evaluated; tail expression of a plain block:
//!    until the end of the statement that contains the block);
//!  * an acquisition whose value is moved somewhere we do not follow (call
//!    argument, struct field, assignment, return value) fails the run
//!    (`ERROR escaping guard`; none at this commit);
//!  * `drop(g)` inside an `if`/`else`/`match` arm/loop/closure body releases `g`
//!    only inside that body: when the body is left the guard counts as held
//!    again (`Hold`), since the other path did not release it.
//!
//! `tokio::spawn(..)`-like calls start a new task: their argument is walked as
//! a separate root function `parent{task#k}` with nothing held.  A closure or
//! async block bound by `let f = ..` is a function `parent{closure#k}` of its
//! own, called where it is written and at every later mention of `f`; any
//! other closure / async block is walked in place.  A call of an async fn that
//! is not awaited in place (future kept for later) fails the run.
//!
//! Calls are resolved by the (heuristic) type of the receiver -- `self`, typed
//! fields / parameters / locals, lazy_static globals, return types of resolved
//! callees -- and otherwise by name and argument count to ALL same-named
//! functions of the parsed crates.  Names in STOP_LIST are not linked when the
//! receiver type is unknown; the functions skipped that way are reported
//! (`dropped`) and re-checked to be lock-free by the Coq obligation.

use crate::index::{is_test_only, pat_idents, FnDef, Index};
use std::collections::BTreeSet;
use syn::punctuated::Punctuated;
use syn::{Block, Expr, Pat, Stmt, Token};

#[derive(Clone, Debug, PartialEq)]
pub enum Ev {
    Acq { lock: String, write: bool, site: String },
    Rel { lock: String },
    Hold { lock: String },
    Call { site: String, callees: Vec<usize> },
    CallLocal { site: String, name: String }, // call of / mention of a let-bound closure or async block (a function of its own)
}

/// Names that are overwhelmingly std / tokio / collection methods.  A call
/// `x.name(..)` whose receiver type could not be determined is NOT linked to
/// same-named functions of the parsed crates when `name` is listed here.  A call
/// whose receiver type is known (`self.`, a typed field, parameter or local, or
/// `Type::name(..)`) is always linked, whatever its name.  Every function skipped
/// because of this list ends up in `not_linked` of LockGraph.v and must have a
/// summary without shared locks (checked in Coq), so a wrong entry here makes the
/// check fail instead of hiding an edge.
pub const STOP_LIST: &[&str] = &[
    "new", "default", "clone", "from", "into", "try_from", "try_into", "len", "is_empty", "get", "get_mut", "insert", "remove",
    "push", "push_back", "push_front", "pop", "pop_front", "pop_back", "iter", "iter_mut", "into_iter", "next", "contains",
    "contains_key", "clear", "extend", "drain", "retain", "send", "recv", "try_send", "try_recv", "lock", "read", "write",
    "unwrap", "expect", "map", "filter", "collect", "to_string", "to_vec", "as_ref", "as_mut", "as_slice", "eq", "cmp",
    "partial_cmp", "hash", "fmt", "drop", "deref", "deref_mut", "first", "last", "sort", "sort_by", "entry", "keys", "values",
    "min", "max", "sum", "count", "take", "skip", "find", "any", "all", "fold", "join", "split", "append", "truncate",
    "reserve", "with_capacity", "set", "add", "sub", "is_some", "is_none", "ok", "err", "unwrap_or", "and_then", "or_else",
    "flush", "close", "connect", "abort", "start", "stop", "init", "build", "name", "now", "elapsed", "sleep", "tick",
    "reset", "update", "copy_from_slice", "to_owned", "borrow", "borrow_mut", "index", "parse", "log", "enabled", "call",
];

/// methods through which the (heuristic) receiver type is passed unchanged
const PASS_THROUGH: &[&str] = &[
    "read", "write", "lock", "clone", "unwrap", "expect", "as_ref", "as_mut", "borrow", "borrow_mut", "deref", "deref_mut",
    "iter", "iter_mut", "into_iter", "get", "get_mut", "values", "values_mut", "first", "last", "next", "cloned", "to_owned",
    "unwrap_or_default", "ok", "filter", "find", "rev", "take", "skip", "await", "remove", "pop_front", "pop", "drain", "entry",
    "or_insert_with", "or_default", "as_deref", "as_deref_mut", "peekable", "enumerate", "copied", "last_mut", "first_mut",
];

pub fn classify_by_name(name: &str) -> Option<&'static str> {
    let n = name.to_lowercase();
    if n == "saito" {
        Some("LSaito")
    } else if n.contains("config") {
        Some("LCfg")
    } else if n.contains("blockchain") {
        Some("LBlockchain")
    } else if n.contains("mempool") {
        Some("LMempool")
    } else if n.contains("peer") {
        Some("LPeers")
    } else if n.contains("wallet") {
        Some("LWallet")
    } else {
        None
    }
}

fn classify_by_type(tys: &[String]) -> Option<&'static str> {
    let mut found = BTreeSet::new();
    for t in tys {
        match t.as_str() {
            "Configuration" => found.insert("LCfg"),
            "Blockchain" => found.insert("LBlockchain"),
            "Mempool" => found.insert("LMempool"),
            "PeerCollection" => found.insert("LPeers"),
            "Wallet" => found.insert("LWallet"),
            "SaitoWasm" => found.insert("LSaito"),
            _ => false,
        };
    }
    if found.len() == 1 {
        found.into_iter().next()
    } else {
        None
    }
}

#[derive(Clone, Copy, PartialEq)]
enum Ctx {
    Recv,           // value used in place (receiver, operand, borrowed): an acquisition here is a temporary
    Value,          // value moved somewhere we do not follow: an acquisition here escapes
    LetInit(usize), // initializer of a `let` whose block frame is given: an acquisition here is a let-bound guard
    LetRef(usize),  // under a `&` of such an initializer (temporary lifetime extension): held to the end of that
                    // block, but the variable is only a reference, so `drop(var)` does not release it
}

#[derive(PartialEq, Clone, Copy)]
enum Kind {
    Block,
    Temp,
}

struct Frame {
    kind: Kind,
    conditional: bool,
    guards: Vec<usize>,
    restore: Vec<usize>,
    env_len: usize,
    clos_len: usize,
    unshadow: Vec<(usize, String)>, // guard variables hidden by a binding of this block: visible again when it ends
}

struct Guard {
    lock: String,
    var: Option<String>,
    alive: bool,
    frame_depth: usize,
}

pub struct Out {
    pub name: String,
    pub file: String,
    pub krate: String,
    pub wasm_entry: bool,
    pub is_task: bool,
    pub events: Vec<Ev>,
}

pub struct Walker<'a> {
    idx: &'a Index,
    cur: &'a FnDef,
    name: String,
    pub events: Vec<Ev>,
    frames: Vec<Frame>,
    guards: Vec<Guard>,
    env: Vec<(String, Vec<String>)>,
    closures: Vec<(String, String)>, // let-bound closure variable -> its function name
    let_var: Option<String>,
    awaited_next: bool,
    acq_n: usize,
    call_n: usize,
    task_n: usize,
    pub tasks: Vec<Out>,
    pub log: Vec<String>,
    pub unclassified: BTreeSet<String>,
    pub unparsed_macros: BTreeSet<String>,
    pub ambiguous: BTreeSet<String>,
    pub dropped: BTreeSet<usize>, // same-named functions a call was NOT linked to (stop-list / external qualifier)
}

pub fn walk_fn(idx: &Index, f: &FnDef) -> (Vec<Out>, Vec<String>, BTreeSet<String>, BTreeSet<String>, BTreeSet<String>, BTreeSet<usize>) {
    let mut w = Walker::new(idx, f, f.name.clone(), vec![]);
    for (p, t) in &f.params {
        w.env.push((p.clone(), t.clone()));
    }
    if let Some(b) = &f.body {
        w.body(b);
    }
    let mut outs = vec![Out { name: f.name.clone(), file: f.file.clone(), krate: f.krate.clone(), wasm_entry: f.wasm_entry, is_task: false, events: w.events }];
    outs.append(&mut w.tasks);
    (outs, w.log, w.unclassified, w.unparsed_macros, w.ambiguous, w.dropped)
}

impl<'a> Walker<'a> {
    fn new(idx: &'a Index, cur: &'a FnDef, name: String, env: Vec<(String, Vec<String>)>) -> Self {
        Walker { idx, cur, name, events: vec![], frames: vec![], guards: vec![], env, closures: vec![], let_var: None, awaited_next: false, acq_n: 0, call_n: 0, task_n: 0,
                 tasks: vec![], log: vec![], unclassified: BTreeSet::new(), unparsed_macros: BTreeSet::new(), ambiguous: BTreeSet::new(), dropped: BTreeSet::new() }
    }

    /// a function / task / closure body: temporaries of the tail expression die at its end
    fn body(&mut self, b: &Block) {
        self.push(Kind::Temp, false);
        self.block(b, Ctx::Value, false);
        self.pop();
    }

    // ---------- frames and guards ----------
    fn push(&mut self, kind: Kind, conditional: bool) {
        self.frames.push(Frame { kind, conditional, guards: vec![], restore: vec![], env_len: self.env.len(), clos_len: self.closures.len(), unshadow: vec![] });
    }

    fn pop(&mut self) {
        let f = self.frames.pop().expect("frame");
        for &g in f.guards.iter().rev() {
            if self.guards[g].alive {
                self.guards[g].alive = false;
                self.events.push(Ev::Rel { lock: self.guards[g].lock.clone() });
            }
        }
        for &g in &f.restore {
            if !self.guards[g].alive {
                self.guards[g].alive = true;
                self.events.push(Ev::Hold { lock: self.guards[g].lock.clone() });
            }
        }
        if f.kind == Kind::Block {
            self.env.truncate(f.env_len);
            self.closures.truncate(f.clos_len);
        }
        for (g, v) in f.unshadow {
            if self.guards[g].var.is_none() {
                self.guards[g].var = Some(v);
            }
        }
    }

    fn nearest(&self, kind: Kind) -> usize {
        (0..self.frames.len()).rev().find(|&i| self.frames[i].kind == kind).unwrap_or(0)
    }

    fn acquire(&mut self, lock: &str, write: bool, frame: usize, var: Option<String>) {
        let site = format!("{}#{}", self.name, self.acq_n);
        self.acq_n += 1;
        self.events.push(Ev::Acq { lock: lock.to_string(), write, site });
        self.guards.push(Guard { lock: lock.to_string(), var, alive: true, frame_depth: frame });
        let g = self.guards.len() - 1;
        self.frames[frame].guards.push(g);
    }

    fn drop_var(&mut self, var: &str) -> bool {
        let Some(g) = (0..self.guards.len()).rev().find(|&g| self.guards[g].alive && self.guards[g].var.as_deref() == Some(var)) else {
            return false;
        };
        self.guards[g].alive = false;
        self.events.push(Ev::Rel { lock: self.guards[g].lock.clone() });
        // innermost conditional frame that is deeper than the frame owning the guard
        let owner = self.guards[g].frame_depth;
        if let Some(c) = (owner + 1..self.frames.len()).rev().find(|&i| self.frames[i].conditional) {
            self.frames[c].restore.push(g);
        }
        true
    }

    // ---------- cheap type heuristics ----------
    fn lookup(&self, v: &str) -> Vec<String> {
        if v == "self" || v == "Self" {
            return self.cur.self_ty.iter().cloned().collect();
        }
        if let Some((_, t)) = self.env.iter().rev().find(|(n, _)| n == v) {
            return t.clone();
        }
        self.idx.fields.get(&(String::new(), v.to_string())).cloned().unwrap_or_default() // lazy_static global
    }

    fn ety(&self, e: &Expr) -> Vec<String> {
        match e {
            Expr::Path(p) if p.path.segments.len() == 1 => self.lookup(&p.path.segments[0].ident.to_string()),
            Expr::Field(f) => {
                let m = match &f.member {
                    syn::Member::Named(i) => i.to_string(),
                    syn::Member::Unnamed(i) => i.index.to_string(),
                };
                let base = self.ety(&f.base);
                let mut out: Vec<String> = vec![];
                for t in &base {
                    if let Some(ts) = self.idx.fields.get(&(t.clone(), m.clone())) {
                        out.extend(ts.iter().cloned());
                    }
                }
                out.sort();
                out.dedup();
                out
            }
            Expr::MethodCall(m) => {
                let name = m.method.to_string();
                let recv = self.ety(&m.receiver);
                let mut out: Vec<String> = vec![];
                let mut hit = false;
                for t in &recv {
                    if let Some(fs) = self.idx.by_type.get(&(t.clone(), name.clone())) {
                        hit = true;
                        for &f in fs {
                            out.extend(self.idx.fns[f].ret.iter().cloned());
                        }
                    }
                }
                if !hit && PASS_THROUGH.contains(&name.as_str()) {
                    return recv;
                }
                out.sort();
                out.dedup();
                out
            }
            Expr::Call(c) => {
                let mut out: Vec<String> = vec![];
                for f in self.resolve_path_call(&c.func).0 {
                    out.extend(self.idx.fns[f].ret.iter().cloned());
                }
                out.sort();
                out.dedup();
                out
            }
            Expr::Await(a) => self.ety(&a.base),
            Expr::Macro(m) => {
                // iterate!(coll, n) / iterate_mut!(coll) / drain!(coll, n) of defs.rs: an iterator over `coll`
                match syn::parse::Parser::parse2(Punctuated::<Expr, Token![,]>::parse_terminated, m.mac.tokens.clone()) {
                    Ok(args) if !args.is_empty() && ["iterate", "iterate_mut", "drain"].iter().any(|n| m.mac.path.is_ident(n)) => self.ety(&args[0]),
                    _ => vec![],
                }
            }
            Expr::Reference(r) => self.ety(&r.expr),
            Expr::Unary(u) => self.ety(&u.expr),
            Expr::Paren(p) => self.ety(&p.expr),
            Expr::Group(p) => self.ety(&p.expr),
            Expr::Try(t) => self.ety(&t.expr),
            Expr::Index(i) => self.ety(&i.expr),
            Expr::Cast(c) => self.ety(&c.expr),
            _ => vec![],
        }
    }

    /// a new binding of a name hides an older guard variable of that name until the binding's block ends:
    /// `drop(name)` in between does not release the older guard
    fn shadow(&mut self, p: &Pat, upto: usize) {
        let mut ids = vec![];
        pat_idents(p, &mut ids);
        let scope = self.nearest(Kind::Block);
        for g in 0..upto.min(self.guards.len()) {
            if self.guards[g].var.as_ref().map(|v| ids.contains(v)).unwrap_or(false) {
                let v = self.guards[g].var.take().unwrap();
                self.frames[scope].unshadow.push((g, v));
            }
        }
    }

    fn bind_pat(&mut self, p: &Pat, tys: Vec<String>) {
        if let Pat::Type(t) = p {
            let ws = crate::index::type_words(&t.ty);
            let known: Vec<String> = ws.into_iter().filter(|w| self.idx.types.contains(w)).collect();
            if !known.is_empty() {
                let mut ids = vec![];
                pat_idents(&t.pat, &mut ids);
                for i in ids {
                    self.env.push((i, known.clone()));
                }
                return;
            }
        }
        let mut ids = vec![];
        pat_idents(p, &mut ids);
        for i in ids {
            self.env.push((i, tys.clone()));
        }
    }

    // ---------- call resolution ----------
    /// `Type::f(..)`, `Self::f(..)`, `module::f(..)`, `f(..)` -> (callees, same-named functions deliberately not linked)
    fn resolve_path_call(&self, func: &Expr) -> (Vec<usize>, Vec<usize>) {
        let Expr::Path(p) = func else { return (vec![], vec![]) };
        let segs: Vec<String> = p.path.segments.iter().map(|s| s.ident.to_string()).collect();
        let name = segs.last().cloned().unwrap_or_default();
        if segs.len() >= 2 {
            let mut q = segs[segs.len() - 2].clone();
            if q == "Self" {
                q = self.cur.self_ty.clone().unwrap_or(q);
            }
            if let Some(fs) = self.idx.by_type.get(&(q.clone(), name.clone())) {
                return (fs.clone(), vec![]);
            }
            if self.idx.types.contains(&q) {
                return (vec![], vec![]); // derived / std-trait function of a parsed type (e.g. `Block::default()`)
            }
            // qualifier is a generic parameter of the current function: union over its bounds
            let bounds: Vec<String> = self.lookup(&q);
            let mut out = vec![];
            for b in bounds {
                if let Some(fs) = self.idx.by_type.get(&(b, name.clone())) {
                    out.extend(fs.iter().cloned());
                }
            }
            // unknown qualifier = type of an external crate (std, tokio, ...): no edge; the same-named
            // functions of the parsed crates are recorded as not linked
            let cands = if out.is_empty() { self.idx.by_name.get(&name).cloned().unwrap_or_default() } else { vec![] };
            return (out, cands);
        }
        // plain `f(..)`: free functions named f (same file first), or a local closure / tuple-struct constructor
        if !self.lookup(&name).is_empty() || self.env.iter().any(|(n, _)| *n == name) {
            return (vec![], vec![]);
        }
        let stem = self.cur.name.split("::").nth(1).unwrap_or("").to_string();
        if let Some(fs) = self.idx.by_type.get(&(stem, name.clone())) {
            let same: Vec<usize> = fs.iter().cloned().filter(|&f| self.idx.fns[f].file == self.cur.file).collect();
            if !same.is_empty() {
                return (same, vec![]);
            }
        }
        (self.idx.by_type.get(&(String::new(), name)).cloned().unwrap_or_default(), vec![])
    }

    fn resolve_method(&mut self, recv: &Expr, name: &str, nargs: usize) -> Vec<usize> {
        let tys = self.ety(recv);
        let mut out = vec![];
        for t in &tys {
            if let Some(fs) = self.idx.by_type.get(&(t.clone(), name.to_string())) {
                out.extend(fs.iter().cloned().filter(|&f| self.idx.fns[f].has_self && self.idx.fns[f].nparams == nargs));
            }
        }
        if out.is_empty() && STOP_LIST.contains(&name) {
            if let Some(fs) = self.idx.by_name.get(name) {
                for &f in fs.iter().filter(|&&f| self.idx.fns[f].has_self && self.idx.fns[f].nparams == nargs) {
                    self.dropped.insert(f);
                }
            }
        }
        if out.is_empty() && !STOP_LIST.contains(&name) {
            // receiver type unknown (or no such method on the guessed type): every method of that name
            if let Some(fs) = self.idx.by_name.get(name) {
                out.extend(fs.iter().cloned().filter(|&f| self.idx.fns[f].has_self && self.idx.fns[f].nparams == nargs));
                if out.len() > 1 {
                    self.ambiguous.insert(format!("{} ({} candidates) in {}", name, out.len(), self.name));
                }
            }
        }
        out.sort();
        out.dedup();
        out
    }

    /// a future created by calling an async fn but not awaited on the spot runs later, possibly under other guards
    fn deferred(&mut self, callees: &[usize], awaited: bool) {
        if !awaited && callees.iter().any(|&f| self.idx.fns[f].is_async) {
            // certain (every candidate is async) -> the run fails; possible (name-only resolution mixes sync and async) -> note
            let level = if callees.iter().all(|&f| self.idx.fns[f].is_async) { "ERROR " } else { "" };
            self.log.push(format!("{}deferred future in {}: call of async {} is not awaited in place (it would be analysed here, not where it runs)", level, self.name,
                                  callees.iter().map(|&f| self.idx.fns[f].name.clone()).collect::<Vec<_>>().join("|")));
        }
    }

    fn call(&mut self, callees: Vec<usize>) {
        if callees.is_empty() {
            return;
        }
        let site = format!("{}#c{}", self.name, self.call_n);
        self.call_n += 1;
        self.events.push(Ev::Call { site, callees });
    }

    // ---------- statements and blocks ----------
    fn block(&mut self, b: &Block, ctx: Ctx, conditional: bool) {
        self.push(Kind::Block, conditional);
        let me = self.frames.len() - 1;
        let n = b.stmts.len();
        for (i, s) in b.stmts.iter().enumerate() {
            match s {
                Stmt::Local(l) if is_test_only(&l.attrs) => {}
                Stmt::Expr(e, _) if is_test_only(expr_attrs(e)) => {}
                Stmt::Macro(m) if is_test_only(&m.attrs) => {}
                Stmt::Local(l) => {
                    self.push(Kind::Temp, false);
                    let guards_before = self.guards.len();
                    let mut tys = vec![];
                    if let Some(init) = &l.init {
                        let mut ids = vec![];
                        pat_idents(&l.pat, &mut ids);
                        let wild = matches!(&l.pat, Pat::Wild(_));
                        let saved = self.let_var.take();
                        self.let_var = if ids.len() == 1 { Some(ids[0].clone()) } else { None };
                        if matches!(&*init.expr, Expr::Closure(_) | Expr::Async(_)) && ids.len() == 1 {
                            // `let f = |..| ..;` / `let fut = async { .. };` runs where it is called / awaited, not here:
                            // a function of its own, called at the definition (conservative) and at every later mention
                            let name = self.local_fn(&init.expr);
                            self.call_local(&name);
                            self.closures.push((ids[0].clone(), name));
                        } else {
                            self.expr(&init.expr, if wild { Ctx::Recv } else { Ctx::LetInit(me) });
                        }
                        self.let_var = saved;
                        tys = self.ety(&init.expr);
                        if let Some((_, d)) = &init.diverge {
                            self.expr(d, Ctx::Recv);
                        }
                    }
                    self.pop();
                    self.shadow(&l.pat, guards_before);
                    self.bind_pat(&l.pat, tys);
                }
                Stmt::Expr(e, semi) => {
                    if semi.is_none() && i + 1 == n {
                        // tail expression: its temporaries belong to the enclosing temporary scope
                        self.expr(e, ctx);
                    } else {
                        self.push(Kind::Temp, false);
                        self.expr(e, Ctx::Recv);
                        self.pop();
                    }
                }
                Stmt::Macro(m) => {
                    self.push(Kind::Temp, false);
                    self.mac(&m.mac);
                    self.pop();
                }
                Stmt::Item(_) => {} // nested fn items are indexed as functions of their own
            }
        }
        self.pop();
    }

    /// body of if / else / loop / match arm / closure: a temporary scope of its own
    fn cond_block(&mut self, b: &Block, ctx: Ctx) {
        self.push(Kind::Temp, true);
        self.block(b, ctx, true);
        self.pop();
    }

    fn is_acquisition(e: &Expr) -> Option<(&Expr, bool)> {
        if let Expr::Await(a) = e {
            if let Expr::MethodCall(m) = &*a.base {
                let n = m.method.to_string();
                if m.args.is_empty() && (n == "read" || n == "write" || n == "lock") {
                    return Some((&m.receiver, n != "read"));
                }
            }
        }
        None
    }

    fn lock_name(e: &Expr) -> String {
        match e {
            Expr::Field(f) => match &f.member {
                syn::Member::Named(i) => i.to_string(),
                syn::Member::Unnamed(i) => i.index.to_string(),
            },
            Expr::Path(p) => p.path.segments.last().map(|s| s.ident.to_string()).unwrap_or_default(),
            Expr::MethodCall(m) => Self::lock_name(&m.receiver),
            Expr::Paren(p) => Self::lock_name(&p.expr),
            Expr::Reference(p) => Self::lock_name(&p.expr),
            Expr::Unary(p) => Self::lock_name(&p.expr),
            _ => String::new(),
        }
    }

    fn spawn_like(name: &str) -> bool {
        matches!(name, "spawn" | "spawn_blocking" | "spawn_local")
    }

    fn call_local(&mut self, name: &str) {
        let site = format!("{}#c{}", self.name, self.call_n);
        self.call_n += 1;
        self.events.push(Ev::CallLocal { site, name: name.to_string() });
    }

    fn mention(&mut self, var: &str) {
        if let Some((_, name)) = self.closures.iter().rev().find(|(v, _)| v == var).cloned() {
            self.call_local(&name);
        }
    }

    /// body of a let-bound closure / async block as a function of its own (nothing held at its start)
    fn local_fn(&mut self, e: &Expr) -> String {
        let name = format!("{}{{closure#{}}}", self.name, self.task_n);
        self.task_n += 1;
        let mut w = Walker::new(self.idx, self.cur, name.clone(), self.env.clone());
        w.closures = self.closures.clone();
        w.push(Kind::Temp, false);
        match e {
            Expr::Async(x) => w.body(&x.block),
            Expr::Closure(c) => w.closure(c, vec![]),
            _ => {}
        }
        w.pop();
        self.absorb(&mut w, name.clone(), false);
        name
    }

    fn absorb(&mut self, w: &mut Walker<'a>, name: String, is_task: bool) {
        self.log.append(&mut w.log);
        self.unclassified.append(&mut w.unclassified);
        self.unparsed_macros.append(&mut w.unparsed_macros);
        self.ambiguous.append(&mut w.ambiguous);
        self.dropped.append(&mut w.dropped);
        let events = std::mem::take(&mut w.events);
        self.tasks.push(Out { name, file: self.cur.file.clone(), krate: self.cur.krate.clone(), wasm_entry: false, is_task, events });
        self.tasks.append(&mut w.tasks);
    }

    fn task(&mut self, args: &Punctuated<Expr, Token![,]>) {
        let name = format!("{}{{task#{}}}", self.name, self.task_n);
        self.task_n += 1;
        let mut w = Walker::new(self.idx, self.cur, name.clone(), self.env.clone());
        w.closures = self.closures.clone();
        w.push(Kind::Temp, false);
        for a in args {
            match a {
                Expr::Async(x) => w.body(&x.block),
                Expr::Closure(c) => w.expr(&c.body, Ctx::Recv),
                other => {
                    w.awaited_next = true;
                    w.expr(other, Ctx::Recv)
                }
            }
        }
        w.pop();
        self.absorb(&mut w, name, true);
    }

    fn mac(&mut self, m: &syn::Macro) {
        let name = m.path.segments.last().map(|s| s.ident.to_string()).unwrap_or_default();
        if name == "select" {
            if let Ok(arms) = syn::parse::Parser::parse2(parse_select, m.tokens.clone()) {
                // all arm futures are created first, then exactly one handler runs
                for (fut, _) in &arms {
                    self.awaited_next = true;
                    self.expr(fut, Ctx::Recv);
                }
                for (_, handler) in &arms {
                    self.push(Kind::Temp, true);
                    self.expr(handler, Ctx::Recv);
                    self.pop();
                }
                return;
            }
        } else if let Ok(args) = syn::parse::Parser::parse2(Punctuated::<Expr, Token![,]>::parse_terminated, m.tokens.clone()) {
            for a in &args {
                self.awaited_next = name == "join" || name == "try_join";
                self.expr(a, Ctx::Recv);
            }
            return;
        } else if let Ok(args) = syn::parse::Parser::parse2(Punctuated::<Expr, Token![;]>::parse_terminated, m.tokens.clone()) {
            for a in &args {
                self.expr(a, Ctx::Recv); // vec![x; n]
            }
            return;
        }
        let text: String = m.tokens.to_string().chars().filter(|c| !c.is_whitespace()).collect();
        let has_lock = [".read().await", ".write().await", ".lock().await"].iter().any(|p| text.contains(p));
        self.unparsed_macros.insert(format!("{}!{}", name, if has_lock { " CONTAINS-ACQUISITION" } else { "" }));
    }

    // ---------- expressions, in evaluation order ----------
    fn expr(&mut self, e: &Expr, ctx: Ctx) {
        let awaited = std::mem::take(&mut self.awaited_next);
        if let Some((recv, write)) = Self::is_acquisition(e) {
            self.expr(recv, Ctx::Recv);
            let lname = Self::lock_name(recv);
            let by_type = classify_by_type(&self.ety(recv));
            let by_name = classify_by_name(&lname);
            let lock = match (by_type, by_name) {
                (Some(t), Some(n)) if t != n => {
                    self.log.push(format!("ERROR lock classification conflict in {}: `{}` named like {} but typed like {}", self.name, lname, n, t));
                    t.to_string()
                }
                (Some(t), _) => t.to_string(),
                (None, Some(n)) => n.to_string(),
                (None, None) => {
                    self.unclassified.insert(lname.clone());
                    format!("(LOther \"{}\")", lname)
                }
            };
            match ctx {
                Ctx::Recv => {
                    let f = self.nearest(Kind::Temp);
                    self.acquire(&lock, write, f, None);
                }
                Ctx::LetInit(f) => {
                    let v = self.let_var.clone();
                    self.acquire(&lock, write, f, v);
                }
                Ctx::LetRef(f) => self.acquire(&lock, write, f, None),
                Ctx::Value => {
                    self.log.push(format!("ERROR escaping guard ({}) in {}: its value is moved (call argument, struct field, assignment, return value), so where it is released cannot be determined", lock, self.name));
                    self.acquire(&lock, write, 0, None);
                }
            }
            return;
        }
        match e {
            Expr::Await(a) => {
                self.awaited_next = true;
                self.expr(&a.base, Ctx::Recv)
            }
            Expr::MethodCall(m) => {
                let name = m.method.to_string();
                if Self::spawn_like(&name) {
                    self.expr(&m.receiver, Ctx::Recv);
                    self.task(&m.args);
                    return;
                }
                self.expr(&m.receiver, Ctx::Recv);
                // closures passed to iterator adaptors see the element type of the receiver
                let recv_ty = self.ety(&m.receiver);
                for a in &m.args {
                    if let Expr::Closure(c) = a {
                        self.closure(c, recv_ty.clone());
                    } else {
                        self.expr(a, Ctx::Value);
                    }
                }
                let callees = self.resolve_method(&m.receiver, &name, m.args.len());
                self.deferred(&callees, awaited);
                self.call(callees);
            }
            Expr::Call(c) => {
                let fname = match &*c.func {
                    Expr::Path(p) => p.path.segments.last().map(|s| s.ident.to_string()).unwrap_or_default(),
                    _ => String::new(),
                };
                if fname == "drop" && c.args.len() == 1 {
                    if let Expr::Path(p) = &c.args[0] {
                        if p.path.segments.len() == 1 && self.drop_var(&p.path.segments[0].ident.to_string()) {
                            return;
                        }
                    }
                }
                if Self::spawn_like(&fname) {
                    self.task(&c.args);
                    return;
                }
                match &*c.func {
                    Expr::Path(p) if p.path.segments.len() == 1 => self.mention(&p.path.segments[0].ident.to_string()),
                    Expr::Path(_) => {}
                    other => self.expr(other, Ctx::Recv),
                }
                for a in &c.args {
                    self.expr(a, Ctx::Value);
                }
                let (mut callees, mut not_linked) = self.resolve_path_call(&c.func);
                // Rust has no overloading: the number of arguments must fit (`Type::method(recv, ..)` passes self explicitly)
                callees.retain(|&f| self.idx.fns[f].nparams + usize::from(self.idx.fns[f].has_self) == c.args.len());
                not_linked.retain(|&f| self.idx.fns[f].nparams + usize::from(self.idx.fns[f].has_self) == c.args.len());
                self.dropped.extend(not_linked);
                self.deferred(&callees, awaited);
                self.call(callees);
            }
            Expr::Macro(m) => self.mac(&m.mac),
            Expr::Block(b) => self.block(&b.block, ctx, false),
            Expr::Unsafe(b) => self.block(&b.block, ctx, false),
            Expr::Async(b) => {
                // an async block that is not spawned: walked in place (it is awaited in the same task)
                self.push(Kind::Temp, true);
                self.block(&b.block, Ctx::Recv, true);
                self.pop();
            }
            Expr::Closure(c) => self.closure(c, vec![]),
            Expr::If(i) => {
                if let Expr::Let(l) = &*i.cond {
                    // scrutinee temporaries live to the end of the if-let expression
                    self.expr(&l.expr, Ctx::Recv);
                    let tys = self.ety(&l.expr);
                    self.push(Kind::Block, false);
                    self.shadow(&l.pat, usize::MAX);
                    self.bind_pat(&l.pat, tys);
                    self.cond_block(&i.then_branch, ctx);
                    self.pop();
                } else {
                    self.push(Kind::Temp, false);
                    self.expr(&i.cond, Ctx::Recv);
                    self.pop();
                    self.cond_block(&i.then_branch, ctx);
                }
                if let Some((_, els)) = &i.else_branch {
                    match &**els {
                        Expr::Block(b) => self.cond_block(&b.block, ctx),
                        other => {
                            self.push(Kind::Temp, true);
                            self.expr(other, ctx);
                            self.pop();
                        }
                    }
                }
            }
            Expr::Match(m) => {
                self.expr(&m.expr, Ctx::Recv);
                let tys = self.ety(&m.expr);
                for arm in &m.arms {
                    self.push(Kind::Block, true);
                    self.push(Kind::Temp, true);
                    self.shadow(&arm.pat, usize::MAX);
                    self.bind_pat(&arm.pat, tys.clone());
                    if let Some((_, g)) = &arm.guard {
                        self.expr(g, Ctx::Recv);
                    }
                    self.expr(&arm.body, ctx);
                    self.pop();
                    self.pop();
                }
            }
            Expr::While(w) => {
                self.push(Kind::Block, false);
                self.push(Kind::Temp, false);
                if let Expr::Let(l) = &*w.cond {
                    self.expr(&l.expr, Ctx::Recv);
                    let tys = self.ety(&l.expr);
                    self.shadow(&l.pat, usize::MAX);
                    self.bind_pat(&l.pat, tys);
                    self.cond_block(&w.body, Ctx::Recv);
                    self.pop();
                } else {
                    self.expr(&w.cond, Ctx::Recv);
                    self.pop();
                    self.cond_block(&w.body, Ctx::Recv);
                }
                self.pop();
            }
            Expr::ForLoop(f) => {
                self.expr(&f.expr, Ctx::Recv);
                let tys = self.ety(&f.expr);
                self.push(Kind::Block, false);
                self.shadow(&f.pat, usize::MAX);
                self.bind_pat(&f.pat, tys);
                self.cond_block(&f.body, Ctx::Recv);
                self.pop();
            }
            Expr::Loop(l) => self.cond_block(&l.body, Ctx::Recv),
            Expr::Let(l) => self.expr(&l.expr, Ctx::Recv),
            // temporary lifetime extension: `let x = &<place based on a temporary>` keeps the temporary alive to
            // the end of the block; without the `&` a field / deref / index of a temporary is an ordinary temporary
            Expr::Reference(r) => self.expr(&r.expr, match ctx { Ctx::LetInit(f) | Ctx::LetRef(f) => Ctx::LetRef(f), _ => Ctx::Recv }),
            Expr::Unary(u) => self.expr(&u.expr, if let Ctx::LetRef(_) = ctx { ctx } else { Ctx::Recv }),
            Expr::Field(f) => self.expr(&f.base, if let Ctx::LetRef(_) = ctx { ctx } else { Ctx::Recv }),
            Expr::Paren(p) => self.expr(&p.expr, ctx),
            Expr::Group(p) => self.expr(&p.expr, ctx),
            Expr::Cast(c) => self.expr(&c.expr, ctx),
            Expr::Try(t) => self.expr(&t.expr, ctx),
            Expr::Tuple(t) => t.elems.iter().for_each(|x| self.expr(x, ctx)),
            Expr::Array(t) => t.elems.iter().for_each(|x| self.expr(x, ctx)),
            Expr::Struct(s) => {
                for f in &s.fields {
                    self.expr(&f.expr, ctx);
                }
                if let Some(r) = &s.rest {
                    self.expr(r, Ctx::Recv);
                }
            }
            Expr::Repeat(r) => {
                self.expr(&r.expr, Ctx::Value);
                self.expr(&r.len, Ctx::Recv);
            }
            Expr::Index(i) => {
                self.expr(&i.expr, if let Ctx::LetRef(_) = ctx { ctx } else { Ctx::Recv });
                self.expr(&i.index, Ctx::Recv);
            }
            Expr::Binary(b) => {
                self.expr(&b.left, Ctx::Recv);
                self.expr(&b.right, Ctx::Recv);
            }
            Expr::Assign(a) => {
                self.expr(&a.right, Ctx::Value);
                self.expr(&a.left, Ctx::Recv);
            }
            Expr::Range(r) => {
                if let Some(x) = &r.start {
                    self.expr(x, Ctx::Recv);
                }
                if let Some(x) = &r.end {
                    self.expr(x, Ctx::Recv);
                }
            }
            Expr::Return(r) => {
                if let Some(x) = &r.expr {
                    self.expr(x, Ctx::Value);
                }
            }
            Expr::Break(r) => {
                if let Some(x) = &r.expr {
                    self.expr(x, Ctx::Value);
                }
            }
            Expr::Yield(r) => {
                if let Some(x) = &r.expr {
                    self.expr(x, Ctx::Value);
                }
            }
            Expr::TryBlock(b) => self.block(&b.block, ctx, false),
            Expr::Const(b) => self.block(&b.block, ctx, false),
            Expr::Path(p) => {
                if p.path.segments.len() == 1 {
                    self.mention(&p.path.segments[0].ident.to_string());
                }
            }
            Expr::Lit(_) | Expr::Continue(_) | Expr::Infer(_) | Expr::Verbatim(_) => {}
            other => self.log.push(format!("ERROR unhandled expression kind in {}: {:?}", self.name, std::mem::discriminant(other))),
        }
    }

    fn closure(&mut self, c: &syn::ExprClosure, param_ty: Vec<String>) {
        self.push(Kind::Block, true);
        self.push(Kind::Temp, true);
        for p in &c.inputs {
            self.shadow(p, usize::MAX);
            self.bind_pat(p, param_ty.clone());
        }
        self.expr(&c.body, Ctx::Recv);
        self.pop();
        self.pop();
    }
}

/// attributes of a statement-level expression (`#[cfg(test)] { .. }`)
fn expr_attrs(e: &Expr) -> &[syn::Attribute] {
    match e {
        Expr::Block(x) => &x.attrs,
        Expr::Unsafe(x) => &x.attrs,
        Expr::Async(x) => &x.attrs,
        Expr::If(x) => &x.attrs,
        Expr::Match(x) => &x.attrs,
        Expr::Call(x) => &x.attrs,
        Expr::MethodCall(x) => &x.attrs,
        Expr::Macro(x) => &x.attrs,
        Expr::ForLoop(x) => &x.attrs,
        Expr::While(x) => &x.attrs,
        Expr::Loop(x) => &x.attrs,
        Expr::Await(x) => &x.attrs,
        Expr::Assign(x) => &x.attrs,
        _ => &[],
    }
}

/// `pattern = future [, if guard] => handler [,]` ...  (tokio::select!; `biased;` and `else => ..` accepted)
fn parse_select(input: syn::parse::ParseStream) -> syn::Result<Vec<(Expr, Expr)>> {
    let mut arms = vec![];
    if input.peek(syn::Ident) && input.peek2(Token![;]) {
        let _: syn::Ident = input.parse()?;
        let _: Token![;] = input.parse()?;
    }
    while !input.is_empty() {
        if input.peek(Token![else]) {
            let _: Token![else] = input.parse()?;
            let _: Token![=>] = input.parse()?;
            let h: Expr = input.parse()?;
            arms.push((syn::parse_quote!(()), h));
        } else {
            let _pat = Pat::parse_multi_with_leading_vert(input)?;
            let _: Token![=] = input.parse()?;
            let fut: Expr = input.parse()?;
            if input.peek(Token![,]) {
                let _: Token![,] = input.parse()?;
                let _: Token![if] = input.parse()?;
                let _g: Expr = input.parse()?;
            }
            let _: Token![=>] = input.parse()?;
            let h: Expr = input.parse()?;
            arms.push((fut, h));
        }
        if input.peek(Token![,]) {
            let _: Token![,] = input.parse()?;
        }
    }
    Ok(arms)
}
