/verif/srcfacts/target2/release/srcfacts: /tmp/c11_sf2/src/golden.rs /tmp/c11_sf2/src/index.rs /tmp/c11_sf2/src/main.rs /tmp/c11_sf2/src/panics.rs /tmp/c11_sf2/src/scan.rs /tmp/c11_sf2/src/walk.rs
