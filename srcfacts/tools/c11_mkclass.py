#!/usr/bin/env python3
"""Writes coq/model/PanicClass.v from the reviewed decisions below (the .v is the checked artifact).
Workflow when /repo changes the scanned files (C11_classified fails and the build log names the sites):
  PANICSITES_REVIEW=/verif/work/C11/review.tsv srcfacts/target/release/srcfacts /repo /verif/work/C11/gen
  (review.tsv = site, file:line, source text), look at every new / renamed site, edit the decisions below,
  python3 srcfacts/tools/c11_mkclass.py   (prints missing / stale entries; writes coq/model/PanicClass.v)"""
import sys, os, collections
REVIEW = os.environ.get('C11_REVIEW', '/verif/work/C11/review.tsv')
OUT = os.environ.get('C11_OUT', '/verif/coq/model/PanicClass.v')
rows = [l.rstrip('\n').split('\t') for l in open(REVIEW)]
sites = [r[0] for r in rows]
src_text = {r[0]: (r[2] if len(r) > 2 else '') for r in rows}
IO  = ('L', "result of an InterfaceIO call of the node's own IO layer (saito-rust's RustIOHandler always answers Ok; an Err means the internal channel to the network controller is closed)")
CH  = ('L', "send on an internal mpsc channel of the node: fails only when the receiving thread of this node is gone")
CFG = ('L', "local configuration or start-up data (consensus configuration section, block files, issuance file, number of verification threads)")
STAT= ('L', "statistics channel of the node (on_stat_interval)")
def U(w): return ('U', w)
def K(i): return ('K', i)
R='routing_thread::RoutingThread::'; RP='routing_thread::RoutingThread_as_ProcessEvent::'
V='verification_thread::VerificationThread::'; VP='verification_thread::VerificationThread_as_ProcessEvent::'
C='consensus_thread::ConsensusThread::'; CP='consensus_thread::ConsensusThread_as_ProcessEvent::'
N='io::network::Network::'; M='consensus::mempool::Mempool::'; P='consensus::peers::peer::Peer::'
PC='consensus::peers::peer_collection::PeerCollection::'
exact = {
 R+'process_ghost_chain_request#1-unwrap': U("the entry was found by process_network_event (find_peer_by_index_mut(..)?) in the same task before dispatch; entries are removed only by this task (timer purge, reconnection merge, stun removal), never between lookup and dispatch"),
 R+'process_incoming_blockchain_request#1-unwrap': IO,
 R+'send_to_verification_thread#1-expect': U("index is taken modulo the vector length; the vector is non-empty by the assert in on_init (routing_thread::RoutingThread_as_ProcessEvent::on_init#1-assert)"),
 R+'send_to_verification_thread#2-unwrap': CH,
 R+'process_peer_services#1-unwrap': U("guarded by peer.is_some() on the line above"),
 R+'write_peer_state_data#1-unwrap': IO,
 RP+'process_network_event#1-unwrap': IO,
 RP+'process_network_event#2-unwrap': U("guarded by the message.is_err() early return above"),
 RP+'process_network_event#3-unwrap': U("guarded by result.is_ok()"),
 RP+'process_network_event#4-unwrap': IO,
 RP+'process_network_event#5-unreachable': ('L', "the remaining NetworkEvent variants (OutgoingNetworkMessage, OutgoingNetworkMessageForAll, ConnectToPeer, DisconnectFromPeer, BlockFetchRequest) travel from the core to the IO layer; the IO layer of saito-rust never sends them to the routing thread"),
 RP+'on_init#1-assert': CFG,
 V+'verify_tx#1-unwrap': CH, V+'verify_txs#1-unwrap': CH,
 V+'verify_block#1-unwrap': U("guarded by the result.is_err() early return above"),
 V+'verify_block#2-unwrap': K('verify-block-generate-unwrap'),
 VP+'process_network_event#1-unreachable': ('L', "no network event receiver is given to the verification threads (run_verification_thread passes None)"),
 C+'generate_issuance_tx#1-assert': CFG, C+'generate_issuance_tx#2-assert': CFG,
 C+'bundle_block#1-unreachable': U("ConsensusThread::process_event (NewTransaction / NewTransactions) sends GoldenTicket-typed transactions to Mempool::add_golden_ticket and pushes only the others to txs_for_mempool; nothing else fills that vector"),
 C+'bundle_block#2-unwrap': U("guarded by gt_result.is_some() in the enclosing if"),
 C+'bundle_block#3-unwrap@debug': U("guarded by gt_result.is_some() in the enclosing if"),
 CP+'process_network_event#1-unreachable': ('L', "no network event receiver is given to the consensus thread"),
 CP+'on_init#1-unwrap@info': CFG, CP+'on_init#2-unwrap@info': CFG, CP+'on_init#3-unwrap@info': CFG, CP+'on_init#4-expect': CFG, CP+'on_init#5-unwrap': CH,
 N+'propagate_block#1-unwrap': IO,
 N+'propagate_transaction#2-unwrap': U("guarded by the get_public_key().is_none() continue above"),
 N+'handle_peer_disconnect#1-unwrap': IO,
 N+'handle_peer_disconnect#2-unwrap': U("guarded by get_public_key().is_some()"),
 N+'handle_new_peer#1-unwrap': IO,
 N+'handle_handshake_challenge#1-unwrap': U("guarded by the peer.is_none() early return"),
 N+'handle_handshake_challenge#2-unwrap': IO,
 N+'handle_handshake_response#1-unwrap': U("guarded by the peer.is_none() early return"),
 N+'handle_handshake_response#2-unwrap': IO,
 N+'handle_handshake_response#3-unwrap': U("guarded by the `result.is_err() || peer.get_public_key().is_none()` early return"),
 N+'handle_handshake_response#4-expect': U("remove_reconnected_peer only removes an entry of the same key that is NOT Connected; the current entry was just marked Connected by Peer::handle_handshake_response (Handshake.v, C17_bad_response_inert / C17_connected_authentic run the same code path without this panic)"),
 N+'handle_handshake_response#5-unwrap@debug': U("guarded by the public_key.is_none() continue above"),
 N+'send_key_list#1-unwrap': IO, N+'request_blockchain_from_peer#1-unwrap': IO, N+'connect_to_static_peers#1-unwrap': IO,
 N+'update_peer_timer#1-unwrap': U("guarded by the peer.is_none() early return"),
 M+'add_transaction#1-debug_assert': U("every caller (add_transaction_if_validates, Blockchain::add_block_transactions_back) passes a transaction on which generate()/validate() has run, which sets hash_for_signature; debug builds only"),
 M+'add_transaction#2-panic': ('L', "a GoldenTicket-typed transaction reaches add_transaction only through callers outside the peer path (wasm API, tests): the consensus thread routes such transactions to add_golden_ticket, add_block_transactions_back keeps Normal transactions only, the staking / issuance transactions are built locally"),
 M+'bundle_block#1-unwrap': CFG, M+'bundle_genesis_block#1-unwrap': CFG, M+'bundle_genesis_block#2-unwrap': CFG, M+'can_bundle_block#1-unwrap': CFG,
 P+'initiate_handshake#1-unwrap': U("generate_random_bytes(32) returns 32 bytes; conversion to [u8; 32] cannot fail"),
 P+'handle_handshake_challenge#1-unwrap': U("generate_random_bytes(32) returns 32 bytes; conversion to [u8; 32] cannot fail"),
 P+'handle_handshake_response#1-unwrap': U("guarded by the challenge_for_peer.is_none() early return"),
 P+'handle_handshake_response#2-unwrap@info': U("public_key was set to Some a few lines above"),
 P+'send_ping#1-unwrap': IO,
 P+'join_as_reconnection#1-assert': U("the argument comes from remove_reconnected_peer, which skips Connected entries"),
 PC+'remove_reconnected_peer#1-unwrap': U("guarded by the peer_index.is_none() early return"),
 PC+'remove_reconnected_peer#2-unwrap@debug': U("`peer.public_key?` on the line above returns when the key is None"),
 PC+'remove_disconnected_peers#1-unwrap': U("the indices were collected from the same map under the same exclusive borrow"),
}
for k in range(1,5):
    exact[RP+'on_stat_interval#%d-unwrap'%k] = STAT
    exact[CP+'on_stat_interval#%d-unwrap'%k] = STAT
# decisions that depend on WHICH statement carries a name (ordinals shift when a fix removes an earlier site of the
# function): (site name, substring of its source line, class); consulted before `exact`.  They make the table
# regenerate unchanged in meaning after the proposed fixes of work/C11/fixes/*.diff are applied.
by_text = [
 (R+'process_ghost_chain_request#1-unwrap', 'find_peer_by_index', exact[R+'process_ghost_chain_request#1-unwrap']),
 (R+'process_ghost_chain_request#1-unwrap', '.unwrap();', IO),
 (V+'verify_block#2-unwrap', '.unwrap();', CH),
 (N+'propagate_transaction#1-unwrap', 'get_public_key', U("guarded by the get_public_key().is_none() continue above")),
 (N+'propagate_transaction#2-unwrap', 'get_public_key', U("guarded by the get_public_key().is_none() continue above")),
 (N+'propagate_transaction#2-unwrap', '.unwrap();', IO),
]
def decide(site):
    for (n, t, c) in by_text:
        if n == site and t in src_text.get(site, ''):
            return c
    return exact.get(site)
groups = [
 (R+'process_ghost_chain#', U("all seven vectors of a GhostChainSync are built with the same count by GhostChainSync::deserialize (and by generate_ghost_chain); i ranges over prehashes.len(); (after the proposed lite-node fix also pair[0] / pair[1] of block_ids.windows(2), which always has two elements)")),
 ('consensus::peers::peer_service::PeerService_as_TryFrom::try_from#', U("indices 0..2 after the values.len() != 3 check; the unwraps after the is_err() checks")),
 ('consensus::peers::peer_service::PeerService::deserialize_services#', U("each unwrap follows the corresponding is_err() early return (the first one sits in the is_err branch and takes the error)")),
 ('msg::message::Message::deserialize#', U("slices guarded in the same function: empty-buffer check, len != 40 (tag 6), len != 72 (tag 11), len % 33 (tag 15); the nested decoders are separate sites (C10)")),
 ('msg::handshake::HandshakeChallenge_as_Serialize::deserialize#', U("guarded by the buffer.len() < 32 check")),
 ('msg::handshake::HandshakeResponse_as_Serialize::deserialize#', U("guarded by MIN_LEN = 142 and by the buffer.len() < MIN_LEN + url_length check; the unwraps follow is_err() checks")),
 ('msg::block_request::BlockchainRequest_as_Serialize::deserialize#', U("guarded by the buffer.len() != 72 check")),
 ('msg::ghost_chain_sync::GhostChainSync::deserialize_checked#', U("slice [32..36] after the buffer.len() < 36 check")),
 ('msg::ghost_chain_sync::GhostChainSync::deserialize#', U("since fix 8fc45ed the only non-test caller is deserialize_checked, which verifies buffer.len() >= 36 + 82 * count first; every range below is within that length")),
 ('msg::api_message::ApiMessage::deserialize#', U("guarded by the buffer.len() < 4 check (fix 144e342)")),
 ('process::version::Version_as_Ord::cmp#', U("partial_cmp of Version is total (it compares three integers)")),
 ('process::version::read_pkg_version#', ('L', "parses the compile-time CARGO_PKG_VERSION string")),
 ('consensus::golden_ticket::GoldenTicket::deserialize_from_net#', U("internal invariant since fix eeb4ec7: Transaction::deserialize_from_net refuses a GoldenTicket-typed transaction whose payload is not 97 bytes, so pool intake, pool clean-up and block processing (the callers in the peer path) only see 97-byte payloads; locally mined tickets are built by GoldenTicket::serialize_for_net")),
 ('consensus::block::Block::deserialize_from_net#', U("fixed header offsets after the bytes.len() < BLOCK_HEADER_SIZE check; every transaction range is checked against bytes.len() before it is sliced")),
 ('consensus::transaction::Transaction::deserialize_from_net#', U("header offsets after the bytes.len() < TRANSACTION_SIZE check; since fix 34b1724 the total length the header declares is checked against bytes.len() before the slip / message / hop ranges are sliced")),
 ('consensus::slip::Slip::deserialize_from_net#', U("guarded by the bytes.len() != SLIP_SIZE check (C10_slip_total)")),
 ('consensus::slip::Slip::parse_slip_from_utxokey#', U("the argument is a fixed-size [u8; 59] array; all offsets are constants below 59")),
 ('consensus::hop::Hop::deserialize_from_net#', U("guarded by the bytes.len() != HOP_SIZE check (C10_hop_total)")),
]
def q(s): return '"' + s.replace('"','""') + '"'
def cls(c):
    return {'U':'Unreachable','L':'LocalOnly','K':'Known'}[c[0]] + ' ' + q(c[1])
covered=set()
out=[]
out.append('(* Reviewed classification of the panic sites of the peer-facing code (property C11).\n'
 '   Every site of the regenerated inventory coq/gen/PanicSites.v must be matched here, either by an exact entry\n'
 '   or by a per-function group whose NUMBER OF SITES is pinned: a new unwrap / index / assert in a scanned file,\n'
 '   or a renamed function, makes the obligation C11_classified fail until a human has looked at it.\n'
 '     Unreachable why : guarded in the same function, or excluded by a cited lemma / code fact\n'
 '     LocalOnly why   : depends on local configuration, local IO or the node\'s own threads, not on peer input\n'
 '     Known id        : a listed finding (known_findings.txt; "C10:..." / "C17:..." are listed under that property)\n'
 '   Reviewed against /repo at the commit named in registry/C11.json; model only, no proofs. *)\n'
 'From Coq Require Import List String Bool Arith.\nImport ListNotations.\nOpen Scope string_scope.\n\n'
 'Inductive cls : Type :=\n| Unreachable (why : string)\n| LocalOnly (why : string)\n| Known (finding : string).\n\n')
out.append('Definition exact : list (string * cls) := [\n')
ex=[]
for s in sites:
    if decide(s):
        ex.append('  (%s,\n     %s)' % (q(s), cls(decide(s))))
        covered.add(s)
out.append(';\n'.join(ex)); out.append('\n].\n\n')
out.append('(* (prefix of the site name, number of sites with that prefix, class) *)\nDefinition groups : list (string * nat * cls) := [\n')
gr=[]
for (pfx,c) in groups:
    n=len([s for s in sites if s.startswith(pfx)])
    for s in sites:
        if s.startswith(pfx): covered.add(s)
    gr.append('  (%s, %d,\n     %s)' % (q(pfx), n, cls(c)))
out.append(';\n'.join(gr)); out.append('\n].\n')
missing=[s for s in sites if s not in covered]
stale=[k for k in exact if k not in sites]  # entries for sites that no longer exist are simply not written
print('sites',len(sites),'exact',len(ex),'groups',len(gr),'missing',missing,'stale',stale, file=sys.stderr)
cnt=collections.Counter()
for s in sites:
    c = decide(s) or next(c for (p,c) in groups if s.startswith(p))
    cnt[c[0]]+=1
print(dict(cnt), file=sys.stderr)
out.append('''
(* ---------------------------------------------------------------- lookup and the checked obligation *)

Fixpoint assoc (s : string) (l : list (string * cls)) : option cls :=
  match l with
  | [] => None
  | (k, c) :: t => if String.eqb s k then Some c else assoc s t
  end.

Fixpoint group_of (s : string) (l : list (string * nat * cls)) : option cls :=
  match l with
  | [] => None
  | (p, _, c) :: t => if prefix p s then Some c else group_of s t
  end.

Definition classify (s : string) : option cls :=
  match assoc s exact with
  | Some c => Some c
  | None => group_of s groups
  end.

Definition classified (s : string) : Prop := classify s <> None.

Definition is_some {A} (o : option A) : bool := match o with Some _ => true | None => false end.

Definition count_prefix (p : string) (sites : list string) : nat := List.length (filter (prefix p) sites).

(* every site classified; every group has exactly the pinned number of sites; no exact entry is stale
   (names a site that no longer exists); the scanner's own cross-check passed *)
Definition table_ok (sites : list string) (crosscheck : bool) : bool :=
  crosscheck
  && forallb (fun s => is_some (classify s)) sites
  && forallb (fun g => Nat.eqb (count_prefix (fst (fst g)) sites) (snd (fst g))) groups
  && forallb (fun e => existsb (String.eqb (fst e)) sites) exact.

Definition unclassified (sites : list string) : list string :=
  filter (fun s => negb (is_some (classify s))) sites.
Definition stale_entries (sites : list string) : list string :=
  map fst (filter (fun e => negb (existsb (String.eqb (fst e)) sites)) exact).
Definition miscounted_groups (sites : list string) : list (string * nat * nat) :=
  flat_map (fun g => let n := count_prefix (fst (fst g)) sites in
                     if Nat.eqb n (snd (fst g)) then [] else [(fst (fst g), snd (fst g), n)]) groups.

Definition is_unreachable (c : option cls) := match c with Some (Unreachable _) => true | _ => false end.
Definition is_local (c : option cls) := match c with Some (LocalOnly _) => true | _ => false end.
Definition is_known (c : option cls) := match c with Some (Known _) => true | _ => false end.
(* (sites, unreachable, local only, known) *)
Definition class_counts (sites : list string) : nat * nat * nat * nat :=
  (List.length sites,
   List.length (filter (fun s => is_unreachable (classify s)) sites),
   List.length (filter (fun s => is_local (classify s)) sites),
   List.length (filter (fun s => is_known (classify s)) sites)).
''')
open(OUT,'w').write(''.join(out))
